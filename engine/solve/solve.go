// Package solve runs a portfolio of SMT solvers on one script.
package solve

import (
	"bytes"
	"context"
	"fmt"
	"os"
	"os/exec"
	"strings"
	"sync"
	"time"
)

type Result struct {
	Status  string // unsat | sat | unknown | timeout | error
	Solver  string
	Seconds float64
	Output  string
	All     map[string]string // per-solver status
}

type solverSpec struct {
	name string
	args func(file string, secs int) []string
}

var solvers = []solverSpec{
	{"z3-new", func(f string, s int) []string { return []string{"z3-new", fmt.Sprintf("-T:%d", s), f} }},
	{"cvc5", func(f string, s int) []string {
		return []string{"cvc5", fmt.Sprintf("--tlimit=%d", s*1000), "--produce-models", f}
	}},
	{"z3", func(f string, s int) []string { return []string{"z3", fmt.Sprintf("-T:%d", s), f} }},
	// nlsat front end for quantifier-free nonlinear real goals (the default smt
	// core of z3 is much weaker on them); the variant file replaces (check-sat).
	{"z3-nlsat", func(f string, s int) []string { return []string{"z3-new", fmt.Sprintf("-T:%d", s), f + ".nlsat"} }},
}

// Sem limits the number of concurrently running solver processes.
var Sem = make(chan struct{}, 16)

func firstLine(s string) string {
	for _, l := range strings.Split(s, "\n") {
		l = strings.TrimSpace(l)
		if l == "" || strings.HasPrefix(l, ";") {
			continue
		}
		return l
	}
	return ""
}

func classify(out string, err error, timedOut bool) string {
	fl := firstLine(out)
	switch fl {
	case "unsat", "sat", "unknown":
		return fl
	case "timeout":
		return "timeout"
	}
	if timedOut {
		return "timeout"
	}
	if strings.Contains(out, "timeout") || strings.Contains(out, "interrupted") {
		return "timeout"
	}
	return "error"
}

// Run races the solvers on file. which restricts the portfolio ("" = all).
func Run(file string, timeout time.Duration, which string) Result {
	ctx, cancel := context.WithCancel(context.Background())
	defer cancel()
	type one struct {
		name   string
		status string
		out    string
		secs   float64
	}
	ch := make(chan one, len(solvers))
	var wg sync.WaitGroup
	n := 0
	nlsatOK := false
	if data, err := os.ReadFile(file); err == nil {
		txt := string(data)
		if strings.Contains(txt, "Real") && !strings.Contains(txt, "(forall ") && !strings.Contains(txt, "(exists ") && !strings.Contains(txt, "FloatingPoint") {
			txt = strings.Replace(txt, "(check-sat)", "(check-sat-using (then simplify solve-eqs elim-uncnstr qfnra-nlsat))", 1)
			if os.WriteFile(file+".nlsat", []byte(txt), 0o644) == nil {
				nlsatOK = true
			}
		}
	}
	defer os.Remove(file + ".nlsat")
	for _, s := range solvers {
		if which != "" && !strings.Contains(","+which+",", ","+s.name+",") {
			continue
		}
		if s.name == "z3-nlsat" && !nlsatOK {
			continue
		}
		n++
		wg.Add(1)
		go func(s solverSpec) {
			defer wg.Done()
			select {
			case Sem <- struct{}{}:
			case <-ctx.Done():
				ch <- one{s.name, "cancelled", "", 0}
				return
			}
			defer func() { <-Sem }()
			if ctx.Err() != nil {
				ch <- one{s.name, "cancelled", "", 0}
				return
			}
			secs := int(timeout.Seconds())
			if secs < 1 {
				secs = 1
			}
			argv := s.args(file, secs)
			cctx, ccancel := context.WithTimeout(ctx, timeout+2*time.Second)
			defer ccancel()
			cmd := exec.CommandContext(cctx, argv[0], argv[1:]...)
			var buf bytes.Buffer
			cmd.Stdout = &buf
			cmd.Stderr = &buf
			t0 := time.Now()
			err := cmd.Run()
			el := time.Since(t0).Seconds()
			if ctx.Err() != nil {
				ch <- one{s.name, "cancelled", buf.String(), el}
				return
			}
			st := classify(buf.String(), err, cctx.Err() != nil)
			ch <- one{s.name, st, buf.String(), el}
		}(s)
	}
	res := Result{Status: "unknown", All: map[string]string{}}
	var worst one
	got := 0
	for got < n {
		o := <-ch
		got++
		res.All[o.name] = o.status
		if o.status == "unsat" || o.status == "sat" {
			if res.Status == "unsat" || res.Status == "sat" {
				if res.Status != o.status {
					res.Status = "error"
					res.Output += "\nSOLVER DISAGREEMENT: " + res.Solver + " vs " + o.name
				}
				continue
			}
			res.Status = o.status
			res.Solver = o.name
			res.Seconds = o.secs
			res.Output = o.out
			cancel()
			continue
		}
		if o.status != "cancelled" && (worst.name == "" || o.status == "timeout") {
			worst = o
		}
	}
	wg.Wait()
	if res.Status != "unsat" && res.Status != "sat" && res.Status != "error" {
		res.Status = worst.status
		if res.Status == "" || res.Status == "cancelled" {
			res.Status = "unknown"
		}
		res.Solver = worst.name
		res.Seconds = worst.secs
		res.Output = worst.out
	}
	return res
}
