package vc

import (
	"fmt"
	"go/types"
	"math/big"
	"strings"

	"golang.org/x/tools/go/ssa"

	"verifengine/smt"
)

// modelCall gives exact or axiomatised models for library functions.
func (x *Exec) modelCall(bc *blockCtx, in ssa.Instruction, name string, f *ssa.Function, args []*Val) (*Val, bool) {
	f64 := float64T
	t := func(i int) *smt.Term { return x.asTerm(args[i]) }
	ret := func(v *smt.Term) (*Val, bool) { return &Val{Typ: f64, T: v}, true }
	switch name {
	case "(*sync/atomic.Value).Load", "(*sync/atomic.Value).Store":
		// `opt atomicexact 1`: sequential semantics of an atomic.Value (a cell holding
		// an interface value). Without the option the trusted contracts apply, which
		// leave a loaded value unconstrained (any interleaving of other goroutines).
		if x.rootC == nil || x.rootC.Opts["atomicexact"] == "" || args[0].Loc == nil && args[0].T == nil {
			return nil, false
		}
		loc := x.derefLoc(bc, in, args[0])
		st, ok := loc.Typ.Underlying().(*types.Struct)
		if !ok || st.NumFields() != 1 {
			return nil, false
		}
		nl := *loc
		nl.Path = append(append([]PathElem{}, loc.Path...), PathElem{Field: 0, Typ: loc.Typ})
		nl.Typ = st.Field(0).Type()
		x.note("atomic.Value is modelled sequentially here (opt atomicexact): Load returns what was last stored")
		if strings.HasSuffix(name, ".Load") {
			return &Val{Typ: st.Field(0).Type(), T: x.loadLoc(bc.st, &nl)}, true
		}
		x.storeLoc(bc.st, &nl, x.asTerm(args[1]))
		return nil, true
	case "github.com/unixpickle/essentials.UnorderedDelete":
		// exact model of the (reflection-based) library routine for a *[]E argument:
		// s[idx] = s[len(s)-1]; s = s[:len(s)-1]; panics when idx is out of range
		call, ok := in.(ssa.CallInstruction)
		if !ok {
			return nil, false
		}
		mi, ok := call.Common().Args[0].(*ssa.MakeInterface)
		if !ok {
			return nil, false
		}
		pt, ok := mi.X.Type().Underlying().(*types.Pointer)
		if !ok {
			return nil, false
		}
		slt, ok := pt.Elem().Underlying().(*types.Slice)
		if !ok {
			return nil, false
		}
		pv := x.valueIn(bc.fr, bc.env, mi.X)
		loc := x.derefLoc(bc, in, pv)
		sl := x.loadLoc(bc.st, loc)
		idx := t(1)
		n := x.sLen(sl)
		x.check(bc, "safe:index", in, x.b.And(x.b.Cmp("<=", x.b.Int(0), idx), x.b.Cmp("<", idx, n)))
		es := x.so.SortOf(slt.Elem())
		arrSort := fmt.Sprintf("(Array Int %s)", es)
		key := x.heapKeySlice(slt.Elem())
		h := x.getHeap(bc.st, key)
		inner := x.sel(h, x.sRef(sl), arrSort)
		last := x.rdSlice(inner, x.sOff(sl), x.b.Sub(n, x.b.Int(1)), es)
		bc.st.heaps[key] = x.sto(h, x.sRef(sl), x.sto(inner, x.b.Add(x.sOff(sl), idx), last))
		x.storeLoc(bc.st, loc, x.mkSlice(x.sRef(sl), x.sOff(sl), x.b.Sub(n, x.b.Int(1)), x.sCap(sl)))
		x.note("essentials.UnorderedDelete(&s, i) is modelled exactly: s[i] = s[len(s)-1]; s = s[:len(s)-1] (trusted model of a reflection-based library routine)")
		return nil, true
	case "math.Abs":
		return ret(x.mathAbs(t(0)))
	case "math.Min":
		return ret(x.mathMin(t(0), t(1)))
	case "math.Max":
		return ret(x.mathMax(t(0), t(1)))
	case "math.Sqrt":
		return ret(x.mathSqrt(bc.reach, t(0)))
	case "math.IsNaN":
		return &Val{Typ: boolT, T: x.fIsNaN(t(0))}, true
	case "math.IsInf":
		a, s := t(0), t(1)
		if !x.fp {
			return &Val{Typ: boolT, T: x.b.False}, true
		}
		zero := x.fpLit64(f64, 0)
		pos := x.b.And(x.fIsInf(a), x.b.App("fp.gt", "Bool", a, zero))
		neg := x.b.And(x.fIsInf(a), x.b.App("fp.lt", "Bool", a, zero))
		return &Val{Typ: boolT, T: x.b.Or(x.b.And(x.b.Cmp(">=", s, x.b.Int(0)), pos), x.b.And(x.b.Cmp("<=", s, x.b.Int(0)), neg))}, true
	case "math.Inf":
		s := t(0)
		if x.fp {
			pi := x.b.Raw("(_ +oo 11 53)", x.so.FloatSort(f64))
			ni := x.b.Raw("(_ -oo 11 53)", x.so.FloatSort(f64))
			return ret(x.b.Ite(x.b.Cmp(">=", s, x.b.Int(0)), pi, ni))
		}
		inf := x.realInf()
		return ret(x.b.Ite(x.b.Cmp(">=", s, x.b.Int(0)), inf, x.b.Neg(inf)))
	case "math.NaN":
		if x.fp {
			return ret(x.b.Raw("(_ NaN 11 53)", x.so.FloatSort(f64)))
		}
		panic(unsupported("math.NaN in real mode"))
	case "math.Floor":
		if x.fp {
			return ret(x.b.App("fp.roundToIntegral", t(0).Sort, x.b.Raw("RTN", "RoundingMode"), t(0)))
		}
		return ret(x.b.App("to_real", "Real", x.b.App("to_int", "Int", t(0))))
	case "math.Ceil":
		if x.fp {
			return ret(x.b.App("fp.roundToIntegral", t(0).Sort, x.b.Raw("RTP", "RoundingMode"), t(0)))
		}
		return ret(x.b.Neg(x.b.App("to_real", "Real", x.b.App("to_int", "Int", x.b.Neg(t(0))))))
	case "math.Trunc":
		if x.fp {
			return ret(x.b.App("fp.roundToIntegral", t(0).Sort, x.b.Raw("RTZ", "RoundingMode"), t(0)))
		}
		a := t(0)
		fl := x.b.App("to_real", "Real", x.b.App("to_int", "Int", a))
		ce := x.b.Neg(x.b.App("to_real", "Real", x.b.App("to_int", "Int", x.b.Neg(a))))
		return ret(x.b.Ite(x.b.Cmp(">=", a, x.realLit(0)), fl, ce))
	case "math.Round":
		if x.fp {
			return ret(x.b.App("fp.roundToIntegral", t(0).Sort, x.b.Raw("RNA", "RoundingMode"), t(0)))
		}
		a := t(0)
		half := x.realLit(0.5)
		up := x.b.App("to_real", "Real", x.b.App("to_int", "Int", x.b.Add(a, half)))
		dn := x.b.Neg(x.b.App("to_real", "Real", x.b.App("to_int", "Int", x.b.Add(x.b.Neg(a), half))))
		return ret(x.b.Ite(x.b.Cmp(">=", a, x.realLit(0)), up, dn))
	case "math.Pow":
		if !x.fp {
			if e := t(1); e.RatV != nil && e.RatV.IsInt() && e.RatV.Num().IsInt64() {
				k := e.RatV.Num().Int64()
				if k >= 0 && k <= 16 {
					acc := x.realLit(1)
					for j := int64(0); j < k; j++ {
						acc = x.b.Mul(acc, t(0))
					}
					return ret(acc)
				}
			}
			x.declareUF("math_pow", []string{"Real", "Real"}, "Real")
			x.note("math.Pow with a non-constant exponent is uninterpreted")
			return ret(x.b.App("math_pow", "Real", t(0), t(1)))
		}
	case "math.Sin", "math.Cos":
		if !x.fp {
			x.declareUF("math_sin", []string{"Real"}, "Real")
			x.declareUF("math_cos", []string{"Real"}, "Real")
			s := x.b.App("math_sin", "Real", t(0))
			c := x.b.App("math_cos", "Real", t(0))
			x.assume(bc.reach, x.b.Eq(x.b.Add(x.b.Mul(s, s), x.b.Mul(c, c)), x.realLit(1)))
			x.note("sin/cos are uninterpreted up to sin^2+cos^2=1")
			if name == "math.Sin" {
				return ret(s)
			}
			return ret(c)
		}
	case "math.Sincos":
		if !x.fp {
			x.declareUF("math_sin", []string{"Real"}, "Real")
			x.declareUF("math_cos", []string{"Real"}, "Real")
			s := x.b.App("math_sin", "Real", t(0))
			c := x.b.App("math_cos", "Real", t(0))
			x.assume(bc.reach, x.b.Eq(x.b.Add(x.b.Mul(s, s), x.b.Mul(c, c)), x.realLit(1)))
			return &Val{Typ: f.Signature.Results(), Tup: []*Val{{Typ: f64, T: s}, {Typ: f64, T: c}}}, true
		}
	case "math.Atan2", "math.Acos", "math.Asin", "math.Atan", "math.Tan", "math.Exp", "math.Log", "math.Log2", "math.Hypot", "math.Cbrt", "math.Mod", "math.Log10":
		if !x.fp {
			uf := "math_" + smt.Sanitize(name[5:])
			var sorts []string
			var ts []*smt.Term
			for i := range args {
				sorts = append(sorts, "Real")
				ts = append(ts, t(i))
			}
			x.declareUF(uf, sorts, "Real")
			x.note(name + " is uninterpreted")
			r := x.b.App(uf, "Real", ts...)
			if name == "math.Mod" {
				// |r| < |y|, sign(r) = sign(x) or r == 0, x - r is an integer multiple of y
				ax := t(0)
				ay := x.mathAbs(t(1))
				k := x.b.Fresh("modk", "Int")
				x.intWitnesses = append(x.intWitnesses, k)
				x.assume(bc.reach, x.b.Implies(x.b.Not(x.b.Eq(t(1), x.realLit(0))),
					x.b.And(x.b.Cmp("<", x.mathAbs(r), ay),
						x.b.Implies(x.b.Cmp(">=", ax, x.realLit(0)), x.b.Cmp(">=", r, x.realLit(0))),
						x.b.Implies(x.b.Cmp("<=", ax, x.realLit(0)), x.b.Cmp("<=", r, x.realLit(0))),
						x.b.Eq(ax, x.b.Add(x.b.Mul(x.b.App("to_real", "Real", k), ay), r)))))
			}
			if name == "math.Hypot" {
				x.assume(bc.reach, x.b.And(x.b.Cmp(">=", r, x.realLit(0)), x.b.Eq(x.b.Mul(r, r), x.b.Add(x.b.Mul(t(0), t(0)), x.b.Mul(t(1), t(1))))))
			}
			return ret(r)
		}
	case "math.Float64bits", "math.Float32bits", "math.Float64frombits", "math.Float32frombits":
		return x.floatBits(bc, name, args)
	case "math.Signbit":
		if x.fp {
			return &Val{Typ: boolT, T: x.b.App("fp.isNegative", "Bool", t(0))}, true
		}
		return &Val{Typ: boolT, T: x.b.Cmp("<", t(0), x.realLit(0))}, true
	case "math.Copysign":
		if !x.fp {
			a := x.mathAbs(t(0))
			return ret(x.b.Ite(x.b.Cmp("<", t(1), x.realLit(0)), x.b.Neg(a), a))
		}
	}
	return nil, false
}

func (x *Exec) realInf() *smt.Term {
	inf := x.b.Const("math_inf", "Real")
	if !x.ufDecl["infax"] {
		x.ufDecl["infax"] = true
		x.axiom(x.b.Cmp(">", inf, x.b.Real(new(big.Rat).SetFloat64(1e300))))
		x.note("real model: math.Inf is a symbolic constant; every finite value compared with it is assumed to lie strictly between -Inf and +Inf")
	}
	return inf
}

func (x *Exec) mathAbs(a *smt.Term) *smt.Term {
	if x.fp {
		return x.b.App("fp.abs", a.Sort, a)
	}
	if a.RatV != nil {
		return x.b.Real(new(big.Rat).Abs(a.RatV))
	}
	return x.b.Ite(x.b.Cmp(">=", a, x.realLit(0)), a, x.b.Neg(a))
}

// mathMin models Go's math.Min exactly in fp mode:
//
//	Min(x, -Inf) = Min(-Inf, x) = -Inf ; Min(x, NaN) = Min(NaN, x) = NaN ; Min(-0, ±0) = Min(±0, -0) = -0
func (x *Exec) mathMin(a, c *smt.Term) *smt.Term {
	if !x.fp {
		return x.b.Ite(x.b.Cmp("<", a, c), a, c)
	}
	s := a.Sort
	ninf := x.b.Raw("(_ -oo 11 53)", s)
	nan := x.b.Raw("(_ NaN 11 53)", s)
	isNInf := func(v *smt.Term) *smt.Term {
		return x.b.And(x.fIsInf(v), x.b.App("fp.isNegative", "Bool", v))
	}
	bothZero := x.b.And(x.b.App("fp.isZero", "Bool", a), x.b.App("fp.isZero", "Bool", c))
	return x.b.Ite(x.b.Or(isNInf(a), isNInf(c)), ninf,
		x.b.Ite(x.b.Or(x.fIsNaN(a), x.fIsNaN(c)), nan,
			x.b.Ite(bothZero, x.b.Ite(x.b.App("fp.isNegative", "Bool", a), a, c),
				x.b.Ite(x.b.App("fp.lt", "Bool", a, c), a, c))))
}

func (x *Exec) mathMax(a, c *smt.Term) *smt.Term {
	if !x.fp {
		return x.b.Ite(x.b.Cmp(">", a, c), a, c)
	}
	s := a.Sort
	pinf := x.b.Raw("(_ +oo 11 53)", s)
	nan := x.b.Raw("(_ NaN 11 53)", s)
	isPInf := func(v *smt.Term) *smt.Term {
		return x.b.And(x.fIsInf(v), x.b.App("fp.isPositive", "Bool", v))
	}
	bothZero := x.b.And(x.b.App("fp.isZero", "Bool", a), x.b.App("fp.isZero", "Bool", c))
	return x.b.Ite(x.b.Or(isPInf(a), isPInf(c)), pinf,
		x.b.Ite(x.b.Or(x.fIsNaN(a), x.fIsNaN(c)), nan,
			x.b.Ite(bothZero, x.b.Ite(x.b.App("fp.isNegative", "Bool", a), c, a),
				x.b.Ite(x.b.App("fp.gt", "Bool", a, c), a, c))))
}

func (x *Exec) mathSqrt(guard, a *smt.Term) *smt.Term {
	if x.fp {
		return x.b.App("fp.sqrt", a.Sort, x.b.Raw("RNE", "RoundingMode"), a)
	}
	x.declareUF("math_sqrt", []string{"Real"}, "Real")
	r := x.b.App("math_sqrt", "Real", a)
	if !r.Bound {
		x.assume(guard, x.b.Implies(x.b.Cmp(">=", a, x.realLit(0)), x.b.And(x.b.Cmp(">=", r, x.realLit(0)), x.b.Eq(x.b.Mul(r, r), a))))
	} else if !x.ufDecl["sqrtax"] {
		// sqrt applied under a binder: state its definition once, triggered by applications
		x.ufDecl["sqrtax"] = true
		v := x.b.BoundVar("sqx!ax", "Real")
		app := x.b.App("math_sqrt", "Real", v)
		body := x.b.Implies(x.b.Cmp(">=", v, x.realLit(0)), x.b.And(x.b.Cmp(">=", app, x.realLit(0)), x.b.Eq(x.b.Mul(app, app), v)))
		x.hyps = append(x.hyps, x.b.Quant("forall", []*smt.Term{v}, body, app))
	}
	x.note("real model: math.Sqrt(x) is the exact non-negative root for x >= 0 (NaN for x < 0 not modelled)")
	return r
}

// floatBits relates floats and their IEEE bit patterns (fp mode only): the
// integer result is tied to the float by a bit-vector witness.
func (x *Exec) floatBits(bc *blockCtx, name string, args []*Val) (*Val, bool) {
	if !x.fp {
		uf := "bits_" + smt.Sanitize(name[5:])
		switch name {
		case "math.Float64bits", "math.Float32bits":
			x.declareUF(uf, []string{"Real"}, "Int")
			x.note(name + " is uninterpreted in the real model")
			rt := types.Typ[types.Uint64]
			if name == "math.Float32bits" {
				rt = types.Typ[types.Uint32]
			}
			r := x.b.App(uf, "Int", x.asTerm(args[0]))
			x.rangeFacts(r, rt, bc.reach, 0)
			return &Val{Typ: rt, T: r}, true
		default:
			x.declareUF(uf, []string{"Int"}, "Real")
			x.note(name + " is uninterpreted in the real model")
			rt := float64T
			if name == "math.Float32frombits" {
				rt = types.Typ[types.Float32]
			}
			return &Val{Typ: rt, T: x.b.App(uf, "Real", x.asTerm(args[0]))}, true
		}
	}
	// fp model: bit patterns through a pair of uninterpreted functions that are
	// inverse to each other (so Float64bits is injective on structurally
	// different floats; all NaNs are identified -- NaN payloads are not modelled),
	// plus the sign-bit and zero facts.
	wide := name == "math.Float64bits" || name == "math.Float64frombits"
	fs, bits, to, from := "(_ FloatingPoint 11 53)", int64(64), "f64bits", "f64frombits"
	ft := types.Type(float64T)
	it := types.Type(types.Typ[types.Uint64])
	if !wide {
		fs, bits, to, from = "(_ FloatingPoint 8 24)", 32, "f32bits", "f32frombits"
		ft = types.Typ[types.Float32]
		it = types.Typ[types.Uint32]
	}
	x.declareUF(to, []string{fs}, "Int")
	x.declareUF(from, []string{"Int"}, fs)
	x.note("fp model: Float64bits/Float32bits are injective uninterpreted bit patterns (NaN payloads not modelled)")
	top := new(big.Int).Lsh(big.NewInt(1), uint(bits))
	half := new(big.Int).Lsh(big.NewInt(1), uint(bits-1))
	switch name {
	case "math.Float64bits", "math.Float32bits":
		a := x.asTerm(args[0])
		r := x.b.App(to, "Int", a)
		if !a.Bound {
			x.assume(bc.reach, x.b.And(x.b.Cmp("<=", x.b.Int(0), r), x.b.Cmp("<", r, x.b.IntBig(top)),
				x.b.Eq(x.b.App(from, fs, r), a),
				x.b.Implies(x.b.Not(x.fIsNaN(a)), x.b.Eq(x.b.Cmp(">=", r, x.b.IntBig(half)), x.b.App("fp.isNegative", "Bool", a))),
				x.b.Eq(x.b.Eq(r, x.b.Int(0)), x.b.And(x.b.App("fp.isZero", "Bool", a), x.b.App("fp.isPositive", "Bool", a)))))
		}
		return &Val{Typ: it, T: r}, true
	case "math.Float64frombits", "math.Float32frombits":
		n := x.asTerm(args[0])
		r := x.b.App(from, fs, n)
		if !n.Bound {
			x.assume(bc.reach, x.b.Implies(x.b.And(x.b.Cmp("<=", x.b.Int(0), n), x.b.Cmp("<", n, x.b.IntBig(top)), x.b.Not(x.fIsNaN(r))), x.b.Eq(x.b.App(to, "Int", r), n)))
		}
		return &Val{Typ: ft, T: r}, true
	}
	return nil, false
}

var _ = fmt.Sprintf
