package vc

import (
	"fmt"
	"sort"
	"strings"

	"golang.org/x/tools/go/ssa"
)

// DescribeLoops prints the loop ordinals of a function (for contract authors).
func (p *Program) DescribeLoops(name string) string {
	f := p.Funcs[normalizeFuncName(name)]
	if f == nil {
		var cands []string
		for k := range p.Funcs {
			if strings.Contains(k, name) {
				cands = append(cands, k)
			}
		}
		sort.Strings(cands)
		return "function not found; candidates:\n  " + strings.Join(cands, "\n  ") + "\n"
	}
	li := p.loopsOf(f)
	var sb strings.Builder
	fmt.Fprintf(&sb, "%s: %d loops\n", fnKey(f), len(li.loops))
	for _, l := range li.loops {
		pos := p.Fset.Position(loopPos(l))
		var phis []string
		for _, in := range l.header.Instrs {
			if phi, ok := in.(*ssa.Phi); ok {
				phis = append(phis, phi.Comment)
			}
		}
		par := -1
		if l.parent != nil {
			par = l.parent.ordinal
		}
		fmt.Fprintf(&sb, "  loop %d: header block %d (%s) at %s:%d parent=%d phis=%v\n", l.ordinal, l.header.Index, l.header.Comment, pos.Filename, pos.Line, par, phis)
	}
	return sb.String()
}
