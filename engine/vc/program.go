package vc

import (
	"bufio"
	"fmt"
	"go/token"
	"go/types"
	"os"
	"path/filepath"
	"strings"
	"sync"

	"golang.org/x/tools/go/packages"
	"golang.org/x/tools/go/ssa"
	"golang.org/x/tools/go/ssa/ssautil"
)

// Program is the loaded repository plus its contracts.
type Program struct {
	Fset          *token.FileSet
	SSA           *ssa.Program
	Pkgs          []*ssa.Package // repository packages
	ByName        map[string]*ssa.Package
	Funcs         map[string]*ssa.Function
	Contracts     *ContractSet
	RepoDir       string
	mu            sync.Mutex
	loopCache     map[*ssa.Function]*loopInfo
	srcCache      map[string][]string
	ifaceT        map[string]*types.Interface
	ContractFiles []string
}

var repoPkgs = []string{"./model3d", "./model2d", "./fileformats", "./numerical", "./render3d", "./toolbox3d"}

// Load loads the repository packages (build tag verif) and all contract files.
func Load(repoDir string, extraContracts []string) (*Program, error) {
	cfg := &packages.Config{
		Mode:       packages.LoadAllSyntax,
		Dir:        repoDir,
		BuildFlags: []string{"-tags=verif"},
		Env:        append(os.Environ(), "GOFLAGS=-mod=mod", "GOPROXY=off", "GOSUMDB=off", "GOTOOLCHAIN=local"),
	}
	pkgs, err := packages.Load(cfg, repoPkgs...)
	if err != nil {
		return nil, err
	}
	var errs []string
	packages.Visit(pkgs, nil, func(p *packages.Package) {
		for _, e := range p.Errors {
			errs = append(errs, e.Error())
		}
	})
	if len(errs) > 0 {
		return nil, fmt.Errorf("package errors: %s", strings.Join(errs, "; "))
	}
	prog, spkgs := ssautil.AllPackages(pkgs, ssa.InstantiateGenerics)
	p := &Program{Fset: pkgs[0].Fset, SSA: prog, ByName: map[string]*ssa.Package{}, Funcs: map[string]*ssa.Function{},
		Contracts: NewContractSet(), RepoDir: repoDir, loopCache: map[*ssa.Function]*loopInfo{}, srcCache: map[string][]string{}, ifaceT: map[string]*types.Interface{}}
	for _, sp := range spkgs {
		if sp != nil {
			sp.SetDebugMode(true)
			p.Pkgs = append(p.Pkgs, sp)
		}
	}
	prog.Build()
	for _, sp := range prog.AllPackages() {
		p.ByName[sp.Pkg.Path()] = sp
		if _, dup := p.ByName[sp.Pkg.Name()]; !dup || strings.HasPrefix(sp.Pkg.Path(), modPrefix) {
			p.ByName[sp.Pkg.Name()] = sp
		}
	}
	for f := range ssautil.AllFunctions(prog) {
		p.Funcs[fnKey(f)] = f
		// generic bodies: verified once with the type parameter as an uninterpreted sort
		if o := f.Origin(); o != nil && len(o.Blocks) > 0 {
			p.Funcs[fnKey(o)] = o
		}
	}
	// generic methods that no loaded code instantiates are still built (and
	// verified with the type parameter as an uninterpreted sort)
	for _, sp := range p.Pkgs {
		for _, mem := range sp.Members {
			tn, ok := mem.(*ssa.Type)
			if !ok {
				continue
			}
			named, ok := tn.Type().(*types.Named)
			if !ok || named.TypeParams().Len() == 0 {
				continue
			}
			for i := 0; i < named.NumMethods(); i++ {
				if f := prog.FuncValue(named.Method(i)); f != nil && len(f.Blocks) > 0 {
					if _, dup := p.Funcs[fnKey(f)]; !dup {
						p.Funcs[fnKey(f)] = f
					}
				}
			}
		}
	}
	// contract files
	for _, pk := range pkgs {
		if len(pk.GoFiles) == 0 {
			continue
		}
		dir := filepath.Dir(pk.GoFiles[0])
		matches, _ := filepath.Glob(filepath.Join(dir, "verif_contracts*.go"))
		for _, m := range matches {
			if err := p.Contracts.ParseContractFile(m); err != nil {
				return nil, err
			}
			p.ContractFiles = append(p.ContractFiles, m)
		}
	}
	for _, m := range extraContracts {
		if err := p.Contracts.ParseContractFile(m); err != nil {
			return nil, err
		}
		p.ContractFiles = append(p.ContractFiles, m)
	}
	return p, nil
}

func (p *Program) loopsOf(f *ssa.Function) *loopInfo {
	p.mu.Lock()
	defer p.mu.Unlock()
	if li, ok := p.loopCache[f]; ok {
		return li
	}
	li := computeLoops(f)
	p.loopCache[f] = li
	return li
}

// srcLine returns the trimmed source line at pos.
func (p *Program) srcLine(pos token.Pos) string {
	if !pos.IsValid() {
		return ""
	}
	pp := p.Fset.Position(pos)
	p.mu.Lock()
	defer p.mu.Unlock()
	lines, ok := p.srcCache[pp.Filename]
	if !ok {
		f, err := os.Open(pp.Filename)
		if err == nil {
			sc := bufio.NewScanner(f)
			sc.Buffer(make([]byte, 1<<20), 1<<20)
			for sc.Scan() {
				lines = append(lines, sc.Text())
			}
			f.Close()
		}
		p.srcCache[pp.Filename] = lines
	}
	if pp.Line-1 < len(lines) && pp.Line >= 1 {
		return strings.TrimSpace(lines[pp.Line-1])
	}
	return ""
}

// importedPkg finds a package by the name used in specifications.
func (p *Program) importedPkg(from *ssa.Package, name string) *ssa.Package {
	if from != nil {
		for _, imp := range from.Pkg.Imports() {
			if imp.Name() == name {
				return p.SSA.Package(imp)
			}
		}
	}
	if sp, ok := p.ByName[name]; ok {
		return sp
	}
	return nil
}

// resolveType resolves a type expression in the scope of pkg.
func (p *Program) resolveType(pkg *ssa.Package, expr string) types.Type {
	expr = strings.TrimSpace(expr)
	switch expr {
	case "int":
		return types.Typ[types.Int]
	case "bool":
		return types.Typ[types.Bool]
	case "float64", "real":
		return types.Typ[types.Float64]
	case "string":
		return types.Typ[types.String]
	case "":
		return nil
	}
	if strings.HasPrefix(expr, "*") {
		if t := p.resolveType(pkg, expr[1:]); t != nil {
			return types.NewPointer(t)
		}
		return nil
	}
	if strings.HasPrefix(expr, "[]") {
		if t := p.resolveType(pkg, expr[2:]); t != nil {
			return types.NewSlice(t)
		}
		return nil
	}
	if pkg != nil {
		if tv, err := types.Eval(p.Fset, pkg.Pkg, token.NoPos, expr); err == nil && tv.IsType() {
			return tv.Type
		}
	}
	// try qualified name pkg.Type across loaded packages
	if i := strings.LastIndex(expr, "."); i > 0 {
		if sp := p.ByName[expr[:i]]; sp != nil {
			if tn, ok := sp.Pkg.Scope().Lookup(expr[i+1:]).(*types.TypeName); ok {
				return tn.Type()
			}
		}
	}
	for _, sp := range p.Pkgs {
		if tv, err := types.Eval(p.Fset, sp.Pkg, token.NoPos, expr); err == nil && tv.IsType() {
			return tv.Type
		}
	}
	return nil
}

func (p *Program) pkgOfFile(file string) *ssa.Package {
	dir := filepath.Dir(file)
	for _, sp := range p.Pkgs {
		for _, m := range sp.Members {
			if pos := m.Pos(); pos.IsValid() {
				if filepath.Dir(p.Fset.Position(pos).Filename) == dir {
					return sp
				}
				break
			}
		}
	}
	// slower scan
	for _, sp := range p.Pkgs {
		for _, m := range sp.Members {
			if pos := m.Pos(); pos.IsValid() && filepath.Dir(p.Fset.Position(pos).Filename) == dir {
				return sp
			}
		}
	}
	return nil
}

// ifaceMethod finds the interface contract and method contract for m.
func (p *Program) ifaceMethod(m *types.Func) (*FuncContract, *FuncContract) {
	for name, ic := range p.Contracts.Interfaces {
		it := p.ifaceType(name)
		if it == nil {
			continue
		}
		for i := 0; i < it.NumExplicitMethods(); i++ {
			if it.ExplicitMethod(i) == m || it.ExplicitMethod(i) == m.Origin() {
				return ic, ic.Methods[m.Name()]
			}
		}
	}
	return nil, nil
}

// isIfaceMethodName: "(pkg.Iface).Method" naming a method of an interface type.
func (p *Program) isIfaceMethodName(name string) bool {
	if !strings.HasPrefix(name, "(") {
		return false
	}
	k := strings.Index(name, ").")
	if k < 0 {
		return false
	}
	it := p.ifaceType(name[1:k])
	if it == nil {
		return false
	}
	for i := 0; i < it.NumMethods(); i++ {
		if it.Method(i).Name() == name[k+2:] {
			return true
		}
	}
	return false
}

func (p *Program) ifaceType(name string) *types.Interface {
	p.mu.Lock()
	defer p.mu.Unlock()
	if it, ok := p.ifaceT[name]; ok {
		return it
	}
	var res *types.Interface
	if t := p.resolveType(nil, name); t != nil {
		if it, ok := t.Underlying().(*types.Interface); ok {
			res = it
		}
	}
	p.ifaceT[name] = res
	return res
}

func (c *FuncContract) isPureMethod(name string) bool {
	for _, n := range c.PureArgs {
		if n == name {
			return true
		}
	}
	return false
}
