package vc

import (
	"fmt"
	"go/token"
	"go/types"
	"os"
	"sort"
	"strings"
	"time"

	"golang.org/x/tools/go/ssa"

	"verifengine/smt"
)

// Obligation is one named proof goal.
type Obligation struct {
	Name  string
	Kind  string
	Guard *smt.Term
	Goal  *smt.Term
	NHyps int
	Pos   string
	Text  string
	Soft  bool // failure means "undecided" (e.g. unwinding of an un-annotated loop)
}

// viewInfo: a slice that is a snapshot view of an array stored in a struct or local cell.
type viewInfo struct {
	loc    *Loc
	arrTyp types.Type
	ref    *smt.Term
}

type hyp struct {
	t *smt.Term
}

// Exec is one verification run of one function (one SMT universe).
type Exec struct {
	prog                 *Program
	b                    *smt.Builder
	so                   *Sorts
	fp                   bool
	safety               bool
	root                 *ssa.Function
	rootC                *FuncContract
	hyps                 []*smt.Term
	obls                 []*Obligation
	initHeaps            map[string]*smt.Term
	heapSorts            map[string]string
	strLits              map[string]*smt.Term
	dry                  int
	actCount             int
	stack                []*ssa.Function
	Assumed              map[string]bool // assumptions / abstractions used (for evidence)
	oblNames             map[string]int
	freshRefs            []*smt.Term
	paramRefs            []*smt.Term
	ufDecl               map[string]bool
	maxInline            int
	defUnroll            int
	ghostSeq             int
	covers               []*Obligation
	pendingInv           []*invHook
	allocBudget          func(bc *blockCtx, n *smt.Term) *smt.Term
	arrayPtrInSliceSpace bool
	spec                 int
	qseq                 int
	havocAllOnCall       bool
	publishSeen          bool
	privateRefs          []privateRef
	curArgs              []*Val
	iptrs                map[int]*Loc
	sumIDs               map[string]int
	callRes              map[string]map[ssa.Instruction]*Val
	loopEntry            map[*loop]map[*ssa.Phi]*Val
	iptrTerm             map[int]*smt.Term
	callCovers           int
	rootVars             map[string]*Val
	rootLets             map[string]*Val
	rootEntry            *State
	hypTag               map[int][2]string // hypothesis -> (callee contract, postcondition label) it came from
	rangeOf              map[*ssa.Range]types.Type
	distinct             map[[2]int]bool
	freshSet             map[int]bool
	recips               map[int]*smt.Term
	closures             map[int]*Val
	rootInfo             *rootInfo
	skolems              []*smt.Term
	projMemo             map[[2]int]*smt.Term
	keepHyp              map[int]bool
	intWitnesses         []*smt.Term
	deadline             time.Time
	exprTypes            map[Expr]types.Type
	oldSet               map[int]bool
	divAlias             map[int]*smt.Term
	rangeIDs             map[*ssa.Range]int
	views                map[int]*viewInfo
	curSt                *State
	finiteInputs         []*smt.Term
	lastCallResult       *Val
	hintDiv              map[int]int // division-hint hypothesis -> id of the div term it is about
	divRest              map[[2]int]*smt.Term
}

func (x *Exec) axiom(t *smt.Term) {
	if t == x.b.True || t.Bound {
		return
	}
	x.hyps = append(x.hyps, t)
}

// assume adds guard => fact.
func (x *Exec) assume(guard, fact *smt.Term) {
	if guard == nil {
		guard = x.b.True
	}
	x.axiom(x.b.Implies(guard, fact))
}

func (x *Exec) note(s string) { x.Assumed[s] = true }

// oblige records an obligation; afterwards the goal may be assumed.
func (x *Exec) oblige(kind, name string, guard, goal *smt.Term, pos token.Pos, text string, soft bool) {
	if x.dry > 0 || (x.spec > 0 && kind != "unwind" && kind != "unsupported") {
		return
	}
	if goal == x.b.True || guard == x.b.False {
		// trivially true: still counted (cheap), but no solver call needed.
	}
	x.oblNames[name]++
	if n := x.oblNames[name]; n > 1 {
		name = fmt.Sprintf("%s~%d", name, n)
	}
	orig := goal
	goal = x.skolemizeGoal(goal, 0)
	parts := []*smt.Term{goal}
	if goal.Op == "and" && len(goal.Args) <= 16 {
		parts = goal.Args
	} else if goal.Op == "=>" && goal.Args[1].Op == "and" && len(goal.Args[1].Args) <= 16 {
		parts = nil
		for _, c := range goal.Args[1].Args {
			parts = append(parts, x.b.Implies(goal.Args[0], c))
		}
	}
	nh := len(x.hyps)
	for i, g := range parts {
		nm := name
		if len(parts) > 1 {
			nm = fmt.Sprintf("%s.%d", name, i)
		}
		o := &Obligation{Name: nm, Kind: kind, Guard: guard, Goal: g, NHyps: nh, Text: text, Soft: soft}
		if pos.IsValid() {
			o.Pos = x.prog.Fset.Position(pos).String()
		}
		x.obls = append(x.obls, o)
	}
	if kind == "post" && x.rootC != nil && x.rootC.Opts["independentposts"] != "" {
		// `opt independentposts 1`: every postcondition is proved on its own
		// (earlier ones are not added as hypotheses of later ones)
		return
	}
	if kind != "oncall" {
		// (facts about callback arguments are not needed downstream and would
		// only burden later nonlinear queries)
		x.assume(guard, orig)
	}
}

// Frame is one function activation.
type Frame struct {
	fn        *ssa.Function
	act       int
	prefix    string
	fc        *FuncContract
	cells     map[*ssa.Alloc]*cellKey
	entry     *State
	params    map[string]*Val
	returns   []*retEdge
	loops     *loopInfo
	depth     int
	safety    bool
	lets      map[string]*Val
	paramV    []*Val
	defers    []*ssa.Defer
	frameSpec *frameSpec // parsed assigns/pure clause of the function under contract (root frame only)
}

type retEdge struct {
	cond *smt.Term
	vals []*Val
	st   *State
	pos  token.Pos
	blk  *ssa.BasicBlock
}

// ---------------------------------------------------------------------
// loop forest

type loop struct {
	header  *ssa.BasicBlock
	blocks  map[*ssa.BasicBlock]bool
	parent  *loop
	ordinal int
	inner   []*loop
}

type loopInfo struct {
	loops    []*loop                   // in ordinal order
	byHeader map[*ssa.BasicBlock]*loop // header -> loop
	innerOf  map[*ssa.BasicBlock]*loop // innermost loop containing block
	rpo      []*ssa.BasicBlock
	rpoIdx   map[*ssa.BasicBlock]int
}

func computeLoops(fn *ssa.Function) *loopInfo {
	li := &loopInfo{byHeader: map[*ssa.BasicBlock]*loop{}, innerOf: map[*ssa.BasicBlock]*loop{}, rpoIdx: map[*ssa.BasicBlock]int{}}
	if len(fn.Blocks) == 0 {
		return li
	}
	// reverse postorder
	seen := map[*ssa.BasicBlock]bool{}
	var post []*ssa.BasicBlock
	var dfs func(b *ssa.BasicBlock)
	dfs = func(b *ssa.BasicBlock) {
		seen[b] = true
		for _, s := range b.Succs {
			if !seen[s] {
				dfs(s)
			}
		}
		post = append(post, b)
	}
	dfs(fn.Blocks[0])
	for i := len(post) - 1; i >= 0; i-- {
		li.rpoIdx[post[i]] = len(li.rpo)
		li.rpo = append(li.rpo, post[i])
	}
	// back edges
	for _, b := range li.rpo {
		for _, s := range b.Succs {
			if s.Dominates(b) {
				l := li.byHeader[s]
				if l == nil {
					l = &loop{header: s, blocks: map[*ssa.BasicBlock]bool{s: true}}
					li.byHeader[s] = l
				}
				// add natural loop body
				var stack []*ssa.BasicBlock
				if !l.blocks[b] {
					l.blocks[b] = true
					stack = append(stack, b)
				}
				for len(stack) > 0 {
					n := stack[len(stack)-1]
					stack = stack[:len(stack)-1]
					for _, p := range n.Preds {
						if !l.blocks[p] && seen[p] {
							l.blocks[p] = true
							stack = append(stack, p)
						}
					}
				}
			}
		}
	}
	for _, l := range li.byHeader {
		li.loops = append(li.loops, l)
	}
	// ordinal: by source position of header's first positioned instruction, fallback block index
	sort.Slice(li.loops, func(i, j int) bool {
		pi, pj := loopPos(li.loops[i]), loopPos(li.loops[j])
		if pi != pj {
			return pi < pj
		}
		return li.loops[i].header.Index < li.loops[j].header.Index
	})
	for i, l := range li.loops {
		l.ordinal = i
	}
	// nesting: parent = smallest strictly containing loop
	for _, l := range li.loops {
		for _, m := range li.loops {
			if m == l || !m.blocks[l.header] || len(m.blocks) <= len(l.blocks) {
				continue
			}
			if l.parent == nil || len(m.blocks) < len(l.parent.blocks) {
				l.parent = m
			}
		}
	}
	for _, l := range li.loops {
		if l.parent != nil {
			l.parent.inner = append(l.parent.inner, l)
		}
	}
	for _, b := range li.rpo {
		var best *loop
		for _, l := range li.loops {
			if l.blocks[b] && (best == nil || len(l.blocks) < len(best.blocks)) {
				best = l
			}
		}
		li.innerOf[b] = best
	}
	return li
}

func loopPos(l *loop) token.Pos {
	best := token.NoPos
	for b := range l.blocks {
		for _, in := range b.Instrs {
			if p := in.Pos(); p.IsValid() && (best == token.NoPos || p < best) {
				best = p
			}
		}
	}
	return best
}

// ---------------------------------------------------------------------
// region execution

type regionResult struct {
	exits []*Edge // edges leaving the region
	backs []*Edge // edges to the region's loop header (back edges)
}

// execRegion runs the blocks of region `in` (nil = whole function body) given
// pending incoming edges. Blocks are visited in reverse postorder; inner loops
// are executed as units at their header.
func (x *Exec) execRegion(fr *Frame, in *loop, pending map[*ssa.BasicBlock][]*Edge, env *Env) *regionResult {
	res := &regionResult{}
	li := fr.loops
	for _, b := range li.rpo {
		if in != nil && !in.blocks[b] {
			continue
		}
		inner := li.innerOf[b]
		if inner != in {
			// belongs to a nested loop; executed when we hit that loop's header,
			// and only for loops directly nested in `in`.
			l := inner
			for l != nil && l.parent != in {
				l = l.parent
			}
			if l == nil || l.header != b {
				continue
			}
			edges := pending[b]
			delete(pending, b)
			if len(liveEdges(x, edges)) == 0 {
				continue
			}
			exits := x.execLoop(fr, l, liveEdges(x, edges), env)
			for _, e := range exits {
				x.routeEdge(fr, in, e, pending, res)
			}
			continue
		}
		edges := liveEdges(x, pending[b])
		delete(pending, b)
		if len(edges) == 0 {
			continue
		}
		out := x.execBlock(fr, b, edges, env)
		for _, e := range out {
			x.routeEdge(fr, in, e, pending, res)
		}
	}
	return res
}

func liveEdges(x *Exec, es []*Edge) []*Edge {
	var out []*Edge
	for _, e := range es {
		if e.cond != x.b.False {
			out = append(out, e)
		}
	}
	return out
}

func (x *Exec) routeEdge(fr *Frame, in *loop, e *Edge, pending map[*ssa.BasicBlock][]*Edge, res *regionResult) {
	if in != nil {
		if e.to == in.header {
			res.backs = append(res.backs, e)
			return
		}
		if !in.blocks[e.to] {
			res.exits = append(res.exits, e)
			return
		}
	}
	pending[e.to] = append(pending[e.to], e)
}

// execLoop executes loop l with the given entry edges, returns exit edges
// (whose env is the env that should be used for phi lookup at the targets).
func (x *Exec) execLoop(fr *Frame, l *loop, entry []*Edge, env *Env) []*Edge {
	var spec *LoopSpec
	if fr.fc != nil {
		spec = fr.fc.Loops[l.ordinal]
	}
	var exits []*Edge
	var layers []*Env
	if spec != nil && len(spec.Invariants) > 0 {
		exits, layers = x.execLoopInvariant(fr, l, spec, entry, env)
	} else {
		exits, layers = x.execLoopUnroll(fr, l, spec, entry, env)
	}
	// publish loop-defined values used outside the loop into env (merged over exits)
	x.publishLoopValues(fr, l, exits, layers, env)
	return exits
}

// publishLoopValues defines, in the outer env, every value defined inside the
// loop as the ite-merge over the exit edges.
func (x *Exec) publishLoopValues(fr *Frame, l *loop, exits []*Edge, layers []*Env, env *Env) {
	for b := range l.blocks {
		for _, in := range b.Instrs {
			v, ok := in.(ssa.Value)
			if !ok {
				continue
			}
			usedOutside := false
			if refs := v.Referrers(); refs != nil {
				for _, r := range *refs {
					if r.Block() != nil && !l.blocks[r.Block()] {
						usedOutside = true
						break
					}
				}
			}
			if !usedOutside {
				continue
			}
			var conds []*smt.Term
			var vals []*Val
			for _, e := range exits {
				if val := lookupUpTo(e.env, v, env); val != nil {
					conds = append(conds, e.cond)
					vals = append(vals, val)
				}
			}
			if len(vals) == 0 {
				continue
			}
			func() {
				defer func() {
					if r := recover(); r != nil {
						if _, ok := r.(unsupportedErr); ok {
							return // leave undefined; a later use reports it
						}
						panic(r)
					}
				}()
				env.vals[v] = x.mergeVals(conds, vals)
			}()
		}
	}
}

// lookupUpTo looks v up in e, stopping below stop.
func lookupUpTo(e *Env, v ssa.Value, stop *Env) *Val {
	for y := e; y != nil && y != stop; y = y.parent {
		if r, ok := y.vals[v]; ok {
			return r
		}
	}
	return nil
}

func (x *Exec) execLoopUnroll(fr *Frame, l *loop, spec *LoopSpec, entry []*Edge, env *Env) ([]*Edge, []*Env) {
	k := x.defUnroll
	exact := false
	if spec != nil && spec.Unroll > 0 {
		k = spec.Unroll
		exact = spec.Exact
	}
	var exits []*Edge
	var layers []*Env
	incoming := entry
	symbolic := 0 // iterations whose continuation was not decided by constant folding
	for it := 0; ; it++ {
		if len(liveEdges(x, incoming)) == 0 {
			break
		}
		if symbolic >= k || it >= 400 {
			// unwinding assertion: no further iteration is reachable
			var cs []*smt.Term
			for _, e := range incoming {
				cs = append(cs, e.cond)
			}
			name := fmt.Sprintf("%sunwind@loop%d", fr.prefix, l.ordinal)
			x.oblige("unwind", name, x.b.Or(cs...), x.b.False, l.header.Instrs[0].Pos(),
				fmt.Sprintf("loop %d of %s fully unrolled after %d iterations", l.ordinal, fr.fn.Name(), it), !exact)
			if !exact {
				x.note(fmt.Sprintf("loop %d of %s has no invariant: unrolled %d times (bounded)", l.ordinal, fr.fn.String(), it))
			}
			break
		}
		layer := newEnv(env)
		layers = append(layers, layer)
		pending := map[*ssa.BasicBlock][]*Edge{}
		for _, e := range incoming {
			e2 := *e
			pending[l.header] = append(pending[l.header], &e2)
		}
		r := x.execRegionIter(fr, l, pending, layer)
		live := liveEdges(x, r.exits)
		exits = append(exits, live...)
		if len(live) > 0 && len(liveEdges(x, r.backs)) > 0 {
			symbolic++
		}
		incoming = r.backs
	}
	return exits, layers
}

// execRegionIter runs one iteration of loop l: header first, then its body.
func (x *Exec) execRegionIter(fr *Frame, l *loop, pending map[*ssa.BasicBlock][]*Edge, layer *Env) *regionResult {
	return x.execRegion(fr, l, pending, layer)
}

func (x *Exec) execLoopInvariant(fr *Frame, l *loop, spec *LoopSpec, entry []*Edge, env *Env) ([]*Edge, []*Env) {
	name := func(kind string, i int, c *Clause) string {
		lab := fmt.Sprintf("#%d", i)
		if c.Label != "" {
			lab = ":" + c.Label
		}
		return fmt.Sprintf("%sinv@loop%d/%s%s", fr.prefix, l.ordinal, kind, lab)
	}
	// values of the header phis on entry, for loopentry(v)
	x.recordLoopEntry(fr, l, entry)
	// 1. establish on every entry edge
	for _, e := range entry {
		ce := x.loopEnvAtEdge(fr, l, e, env)
		for i, inv := range spec.Invariants {
			t := x.evalBool(ce, inv)
			x.oblige("inv-establish", name("establish", i, inv), e.cond, t, l.header.Instrs[0].Pos(), inv.Text, false)
		}
	}
	// 2. discover the modified set by dry runs to a fixpoint
	pre := x.mergeStates(entry)
	var reach []*smt.Term
	for _, e := range entry {
		reach = append(reach, e.cond)
	}
	reachIn := x.b.Or(reach...)
	modCells := map[*cellKey]bool{}
	modHeaps := map[string]bool{}
	for round := 0; round < 8; round++ {
		x.dry++
		nh := len(x.hyps)
		// axioms memoised during a dry run would be lost with its hypotheses:
		// snapshot the memo tables and restore them afterwards
		snapUF := copyBoolMap(x.ufDecl)
		snapRecips := map[int]*smt.Term{}
		for k, v := range x.recips {
			snapRecips[k] = v
		}
		snapStr := map[string]*smt.Term{}
		for k, v := range x.strLits {
			snapStr[k] = v
		}
		st := x.havocState(pre, modCells, modHeaps, fmt.Sprintf("dry%d", round))
		layer := newEnv(env)
		hdr := x.b.Fresh("dryreach", "Bool")
		pending := map[*ssa.BasicBlock][]*Edge{l.header: {{from: nil, to: l.header, cond: hdr, st: st, env: layer}}}
		r := x.execRegion(fr, l, pending, layer)
		x.hyps = x.hyps[:nh]
		x.dry--
		x.ufDecl = snapUF
		x.recips = snapRecips
		x.strLits = snapStr
		changed := false
		all := append(append([]*Edge{}, r.backs...), r.exits...)
		for _, e := range all {
			for k, v := range e.st.cells {
				if old, ok := st.cells[k]; ok && old != v && !modCells[k] {
					modCells[k] = true
					changed = true
				}
			}
			for k, v := range e.st.heaps {
				if x.getHeap(st, k) != v && !modHeaps[k] {
					modHeaps[k] = true
					changed = true
				}
			}
		}
		if !changed {
			break
		}
	}
	// 3. real run from the havocked header state
	st := x.havocState(pre, modCells, modHeaps, fmt.Sprintf("loop%d", l.ordinal))
	layer := newEnv(env)
	hdrReach := x.b.Fresh(fmt.Sprintf("reach_loop%d", l.ordinal), "Bool")
	// being inside the loop implies having entered it: the path facts that
	// guard the loop entry hold in every iteration
	link := x.b.Implies(hdrReach, reachIn)
	x.axiom(link)
	if x.keepHyp == nil {
		x.keepHyp = map[int]bool{}
	}
	x.keepHyp[link.ID] = true
	// header phis are havocked by execBlock via a havoc edge
	hedge := &Edge{from: nil, to: l.header, cond: hdrReach, st: st, env: layer}
	// evaluate invariants as assumptions once phis exist: execBlock calls back.
	fr2 := fr
	hook := &invHook{l: l, spec: spec, fr: fr2}
	x.pendingInv = append(x.pendingInv, hook)
	pending := map[*ssa.BasicBlock][]*Edge{l.header: {hedge}}
	r := x.execRegion(fr, l, pending, layer)
	x.pendingInv = x.pendingInv[:len(x.pendingInv)-1]
	// 4. preserve on back edges
	for bi, e := range r.backs {
		if os.Getenv("VERIF_DEADPATHS") != "" && x.spec == 0 && x.dry == 0 {
			// audit mode: is this path through the loop body feasible under the
			// invariants? (an infeasible one makes its obligations hold vacuously;
			// legitimately dead paths exist, so this is a diagnostic, not a verdict)
			x.covers = append(x.covers, &Obligation{Name: fmt.Sprintf("cover:deadpath(%sloop%d/back%d)", fr.prefix, l.ordinal, bi), Kind: "cover", Guard: e.cond, Goal: x.b.False, NHyps: len(x.hyps),
				Text: "a path through the loop body is feasible under the invariants", Soft: true})
		}
		ce := x.loopEnvAtEdge(fr, l, e, layer)
		for i, inv := range spec.Invariants {
			t := x.evalBool(ce, inv)
			x.oblige("inv-preserve", name("preserve", i, inv), e.cond, t, l.header.Instrs[0].Pos(), inv.Text, false)
		}
		if fr.frameSpec != nil {
			var keys []string
			for k := range e.st.heaps {
				keys = append(keys, k)
			}
			sort.Strings(keys)
			for _, k := range keys {
				if !modHeaps[k] {
					continue
				}
				if f := x.frameFormula(fr.frameSpec, k, e.st.heaps[k]); f != nil {
					x.oblige("frame", fmt.Sprintf("%sframe(%s)@loop%d/preserve", fr.prefix, k, l.ordinal), e.cond, f, l.header.Instrs[0].Pos(),
						"implicit loop invariant: memory that existed at entry is unchanged outside the assigns clause ("+k+")", false)
				}
			}
		}
		if spec.Decreases != nil && hook.dec0 != nil {
			m1 := x.coerce(x.eval(ce, spec.Decreases.E), intT).T
			x.oblige("term", fmt.Sprintf("%sterm@loop%d/decreases", fr.prefix, l.ordinal), e.cond,
				x.b.And(x.b.Cmp("<=", x.b.Int(0), m1), x.b.Cmp("<", m1, hook.dec0)), l.header.Instrs[0].Pos(), spec.Decreases.Text, false)
		}
		if spec.Increases != nil && hook.inc0 != nil {
			m1 := x.coerce(x.eval(ce, spec.Increases.E), intT).T
			x.oblige("term", fmt.Sprintf("%sterm@loop%d/progress", fr.prefix, l.ordinal), e.cond,
				x.b.Cmp(">", m1, hook.inc0), l.header.Instrs[0].Pos(), spec.Increases.Text, false)
		}
		// self-check: everything modified was havocked
		for k, v := range e.st.cells {
			if old, ok := st.cells[k]; ok && old != v && !modCells[k] {
				panic(fmt.Sprintf("internal: loop modified cell %s not havocked", k.name))
			}
		}
		for k, v := range e.st.heaps {
			if x.getHeap(st, k) != v && !modHeaps[k] {
				panic(fmt.Sprintf("internal: loop modified heap %s not havocked", k))
			}
		}
	}
	// loop postconditions on every exit edge
	for _, e := range r.exits {
		if len(spec.Exits) == 0 {
			break
		}
		ce := &CEnv{x: x, fr: fr, st: e.st, old: fr.entry, env: e.env, loop: l, vars: fr.params, lets: fr.lets, guard: e.cond, fc: fr.fc}
		for i, ex := range spec.Exits {
			lab := fmt.Sprintf("#%d", i)
			if ex.Label != "" {
				lab = ":" + ex.Label
			}
			x.oblige("loop-exit", fmt.Sprintf("%sexit@loop%d%s", fr.prefix, l.ordinal, lab), e.cond, x.evalBool(ce, ex), l.header.Instrs[0].Pos(), ex.Text, false)
		}
	}
	return r.exits, []*Env{layer}
}

type invHook struct {
	l    *loop
	spec *LoopSpec
	fr   *Frame
	dec0 *smt.Term // value of the decreases measure at the loop head
	inc0 *smt.Term // value of the increases measure at the loop head
}

func (x *Exec) havocState(pre *State, modCells map[*cellKey]bool, modHeaps map[string]bool, tag string) *State {
	st := pre.clone()
	for k := range modCells {
		if old, ok := st.cells[k]; ok {
			c := x.b.Fresh("cell_"+k.name+"_"+tag, old.Sort)
			st.cells[k] = c
			x.rangeFacts(c, k.alloc.Type().(*types.Pointer).Elem(), x.b.True, 2)
		}
	}
	var hk []string
	for k := range modHeaps {
		hk = append(hk, k)
	}
	sort.Strings(hk)
	for _, k := range hk {
		st.heaps[k] = x.b.Fresh(k+"_"+tag, x.heapSorts[k])
		if k == "G_alloc" {
			x.axiom(x.b.Cmp(">=", st.heaps[k], x.getHeap(pre, k)))
		}
	}
	return st
}

// ---------------------------------------------------------------------
// blocks

func (x *Exec) execBlock(fr *Frame, b *ssa.BasicBlock, edges []*Edge, env *Env) []*Edge {
	if !x.deadline.IsZero() && time.Now().After(x.deadline) {
		panic(unsupported("verification condition generation exceeded its time budget"))
	}
	var cs []*smt.Term
	for _, e := range edges {
		cs = append(cs, e.cond)
	}
	reach := x.b.Or(cs...)
	st := x.mergeStates(edges)
	bc := &blockCtx{fr: fr, b: b, reach: reach, st: st, env: env}
	// phis
	isHavocHeader := len(edges) == 1 && edges[0].from == nil && b.Index != 0
	for _, in := range b.Instrs {
		phi, ok := in.(*ssa.Phi)
		if !ok {
			break
		}
		if isHavocHeader {
			env.vals[phi] = x.havoc(phi.Type(), "phi_"+phiName(phi), reach)
			continue
		}
		var conds []*smt.Term
		var vals []*Val
		for _, e := range edges {
			idx := -1
			for i, p := range b.Preds {
				if p == e.from {
					idx = i
					break
				}
			}
			if idx < 0 {
				panic("edge from non-predecessor")
			}
			conds = append(conds, e.cond)
			vals = append(vals, x.valueIn(fr, e.env, phi.Edges[idx]))
		}
		env.vals[phi] = x.mergeVals(conds, vals)
	}
	if isHavocHeader && len(x.pendingInv) > 0 {
		h := x.pendingInv[len(x.pendingInv)-1]
		if h.l.header == b {
			ce := &CEnv{x: x, fr: fr, st: st, old: fr.entry, env: env, loop: h.l, guard: reach, vars: fr.params, lets: fr.lets, fc: fr.fc}
			for _, inv := range h.spec.Invariants {
				t := x.evalBool(ce, inv)
				x.assume(reach, t)
			}
			// implicit frame invariant: memory that existed at entry and is not
			// listed in the assigns clause is unchanged (checked at the back edges)
			if fr.frameSpec != nil {
				var keys []string
				for k := range st.heaps {
					keys = append(keys, k)
				}
				sort.Strings(keys)
				for _, k := range keys {
					if f := x.frameFormula(fr.frameSpec, k, st.heaps[k]); f != nil {
						x.assume(reach, f)
					}
				}
			}
			if h.spec.Decreases != nil {
				h.dec0 = x.coerce(x.eval(ce, h.spec.Decreases.E), intT).T
			}
			if h.spec.Increases != nil {
				h.inc0 = x.coerce(x.eval(ce, h.spec.Increases.E), intT).T
			}
		}
	}
	for _, in := range b.Instrs {
		if _, ok := in.(*ssa.Phi); ok {
			continue
		}
		out, done, unsup := x.execInstrGuarded(bc, in)
		if unsup != "" {
			// a construct outside the supported subset: the path is only
			// acceptable if it is unreachable under the contract's preconditions
			x.oblige("unsupported", fr.prefix+"unsupported-path-unreachable", bc.reach, x.b.False, posOf(in),
				"unsupported construct must be unreachable: "+unsup, false)
			x.note("paths through unsupported constructs are proved unreachable: " + unsup)
			return nil
		}
		if done {
			return out
		}
	}
	panic("block without terminator")
}

func phiName(p *ssa.Phi) string {
	if p.Comment != "" {
		return p.Comment
	}
	return p.Name()
}

type blockCtx struct {
	fr    *Frame
	b     *ssa.BasicBlock
	reach *smt.Term
	st    *State
	env   *Env
}

// valueIn resolves an SSA value in env.
func (x *Exec) valueIn(fr *Frame, env *Env, v ssa.Value) *Val {
	switch c := v.(type) {
	case *ssa.Const:
		if c.Value == nil {
			return &Val{Typ: c.Type(), T: x.zeroTerm(c.Type())}
		}
		return x.constVal(c.Type(), c.Value)
	case *ssa.Function:
		return &Val{Typ: c.Type(), Fn: c}
	case *ssa.Global:
		ref := x.b.Const("g_"+smt.Sanitize(c.Pkg.Pkg.Name()+"_"+c.Name()), "Int")
		pt := c.Type().(*types.Pointer).Elem()
		return &Val{Typ: c.Type(), Loc: &Loc{Ref: ref, RootTyp: pt, Typ: pt}}
	case *ssa.Builtin:
		return &Val{Typ: c.Type()}
	}
	r := env.lookup(v)
	if r == nil {
		panic(unsupported(fmt.Sprintf("SSA value %s (%T) of %s is not available at this point", v.Name(), v, fr.fn.Name())))
	}
	return r
}

func (x *Exec) term(bc *blockCtx, v ssa.Value) *smt.Term {
	val := x.valueIn(bc.fr, bc.env, v)
	return x.asTerm(val)
}

func (x *Exec) asTerm(val *Val) *smt.Term {
	if val.T != nil {
		return val.T
	}
	if val.Tup != nil {
		panic(unsupported("tuple used as a single value"))
	}
	if val.Loc != nil {
		if t := x.locAsTerm(val); t != nil {
			return t
		}
		panic(unsupported("interior or local pointer used as a value"))
	}
	if val.Fn != nil {
		// function value as opaque id
		name := "fn_" + smt.Sanitize(val.Fn.String())
		var t *smt.Term
		if len(val.Binds) > 0 {
			if val.T != nil {
				return val.T
			}
			t = x.b.Fresh(name+"_closure", "Int")
			val.T = t
		} else {
			t = x.b.Const(name, "Int")
		}
		if x.closures == nil {
			x.closures = map[int]*Val{}
		}
		if _, ok := x.closures[t.ID]; !ok {
			x.closures[t.ID] = val
			x.axiom(x.b.Cmp(">", t, x.b.Int(0)))
		}
		return t
	}
	panic(unsupported("value has no term form"))
}

func (x *Exec) fnPrefix(fr *Frame) string { return fr.prefix }

func posOf(in ssa.Instruction) token.Pos {
	if in == nil {
		return token.NoPos
	}
	if p := in.Pos(); p.IsValid() {
		return p
	}
	return token.NoPos
}

// siteName builds a stable-ish obligation name for a safety site.
func (x *Exec) siteName(bc *blockCtx, kind string, in ssa.Instruction) string {
	pos := ""
	if p := in.Pos(); p.IsValid() {
		pp := x.prog.Fset.Position(p)
		pos = fmt.Sprintf("@L%d", pp.Line)
	}
	return fmt.Sprintf("%s%s%s", bc.fr.prefix, kind, pos)
}

func trimPkg(s string) string { return strings.ReplaceAll(s, modPrefix, "") }

// loopEnvAtEdge builds the contract environment for evaluating loop-l invariants
// on edge e into the header: header phis take the value flowing along e.
func (x *Exec) recordLoopEntry(fr *Frame, l *loop, entry []*Edge) {
	if x.loopEntry == nil {
		x.loopEntry = map[*loop]map[*ssa.Phi]*Val{}
	}
	m := map[*ssa.Phi]*Val{}
	x.loopEntry[l] = m
	for _, in := range l.header.Instrs {
		phi, ok := in.(*ssa.Phi)
		if !ok {
			break
		}
		var conds []*smt.Term
		var vals []*Val
		for _, e := range entry {
			for i, p := range l.header.Preds {
				if p == e.from {
					conds = append(conds, e.cond)
					vals = append(vals, x.valueIn(fr, e.env, phi.Edges[i]))
					break
				}
			}
		}
		if len(vals) == 0 {
			continue
		}
		func() {
			defer func() {
				if r := recover(); r != nil {
					if _, ok := r.(unsupportedErr); ok {
						return
					}
					panic(r)
				}
			}()
			m[phi] = x.mergeVals(conds, vals)
		}()
	}
}

func (x *Exec) loopEnvAtEdge(fr *Frame, l *loop, e *Edge, outer *Env) *CEnv {
	layer := newEnv(e.env)
	idx := -1
	for i, p := range l.header.Preds {
		if p == e.from {
			idx = i
			break
		}
	}
	if idx >= 0 {
		for _, in := range l.header.Instrs {
			phi, ok := in.(*ssa.Phi)
			if !ok {
				break
			}
			layer.vals[phi] = x.valueIn(fr, e.env, phi.Edges[idx])
		}
	}
	return &CEnv{x: x, fr: fr, st: e.st, old: fr.entry, env: layer, loop: l, vars: fr.params, lets: fr.lets, guard: e.cond, fc: fr.fc}
}

// skolemizeGoal replaces universally quantified variables of a goal (which
// become existential once the goal is negated) by fresh constants:
//
//	forall v. B        ~> B[v := c]
//	A => forall v. B   ~> A => B[v := c]
//	G1 and G2          ~> componentwise
func (x *Exec) skolemizeGoal(g *smt.Term, depth int) *smt.Term {
	if depth > 6 {
		return g
	}
	switch {
	case g.Op == "q" && g.QKind == "forall" && !g.Bound:
		m := map[string]*smt.Term{}
		for _, qv := range g.QVars {
			fs := strings.SplitN(strings.Trim(qv, "()"), " ", 2)
			c := x.b.Fresh("sk_"+strings.SplitN(fs[0], "!", 2)[0], fs[1])
			m[fs[0]] = c
			x.skolems = append(x.skolems, c)
		}
		return x.skolemizeGoal(x.b.Subst(g.Args[0], m), depth+1)
	case g.Op == "=>" && !g.Bound:
		return x.b.Implies(g.Args[0], x.skolemizeGoal(g.Args[1], depth+1))
	case g.Op == "and" && !g.Bound:
		var ps []*smt.Term
		for _, a := range g.Args {
			ps = append(ps, x.skolemizeGoal(a, depth+1))
		}
		return x.b.And(ps...)
	}
	return g
}

func copyBoolMap(m map[string]bool) map[string]bool {
	out := make(map[string]bool, len(m))
	for k, v := range m {
		out[k] = v
	}
	return out
}

func (x *Exec) execInstrGuarded(bc *blockCtx, in ssa.Instruction) (out []*Edge, done bool, unsup string) {
	defer func() {
		if r := recover(); r != nil {
			if u, ok := r.(unsupportedErr); ok && x.dry == 0 && !strings.Contains(u.msg, "time budget") {
				unsup = u.msg
				return
			}
			panic(r)
		}
	}()
	out, done = x.execInstr(bc, in)
	return
}
