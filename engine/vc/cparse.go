package vc

// Contract language: parser for the //@ blocks of verif_contracts.go files
// and for contract expressions.

import (
	"bufio"
	"fmt"
	"math/big"
	"os"
	"strconv"
	"strings"
)

// ---------------------------------------------------------------------
// Expression AST

type Expr interface{}

type (
	EIdent  struct{ Name string }
	EInt    struct{ V *big.Int }
	EFloat  struct{ V *big.Rat }
	EBool   struct{ V bool }
	EString struct{ V string }
	EUnary  struct {
		Op string
		X  Expr
	}
	EBinary struct {
		Op   string
		X, Y Expr
	}
	ECall struct {
		Fun  Expr
		Args []Expr
	}
	ESel struct {
		X   Expr
		Sel string
	}
	EIndex struct{ X, I Expr }
	ESlice struct{ X, Lo, Hi Expr }
	ECond  struct{ C, A, B Expr }
)

type lexer struct {
	s    string
	pos  int
	tok  string // current token text
	kind byte   // 'i' ident, 'n' number, 'o' operator, 's' string, 0 eof
}

func (l *lexer) next() {
	for l.pos < len(l.s) && (l.s[l.pos] == ' ' || l.s[l.pos] == '\t' || l.s[l.pos] == '\n') {
		l.pos++
	}
	if l.pos >= len(l.s) {
		l.kind, l.tok = 0, ""
		return
	}
	c := l.s[l.pos]
	start := l.pos
	switch {
	case isIdentStart(c):
		for l.pos < len(l.s) && (isIdentStart(l.s[l.pos]) || isDigit(l.s[l.pos])) {
			l.pos++
		}
		l.kind = 'i'
	case l.afterOperand() && c == '.' && l.pos+1 < len(l.s) && isDigit(l.s[l.pos+1]):
		// tuple selector: x.0
		l.pos++
		l.kind = 'o'
	case l.afterOperand() && isDigit(c) && l.pos > 0 && l.s[l.pos-1] == '.':
		for l.pos < len(l.s) && isDigit(l.s[l.pos]) {
			l.pos++
		}
		l.kind = 'n'
	case isDigit(c) || (c == '.' && l.pos+1 < len(l.s) && isDigit(l.s[l.pos+1])):
		for l.pos < len(l.s) && (isDigit(l.s[l.pos]) || l.s[l.pos] == '.' || l.s[l.pos] == 'e' || l.s[l.pos] == 'x' ||
			(l.s[l.pos] >= 'a' && l.s[l.pos] <= 'f') || (l.s[l.pos] >= 'A' && l.s[l.pos] <= 'F') || l.s[l.pos] == '_' ||
			((l.s[l.pos] == '-' || l.s[l.pos] == '+') && (l.s[l.pos-1] == 'e') && !strings.HasPrefix(l.s[start:], "0x"))) {
			l.pos++
		}
		l.kind = 'n'
	case c == '"':
		l.pos++
		for l.pos < len(l.s) && l.s[l.pos] != '"' {
			if l.s[l.pos] == '\\' {
				l.pos++
			}
			l.pos++
		}
		l.pos++
		l.kind = 's'
	default:
		ops := []string{"<==>", "==>", "&&", "||", "==", "!=", "<=", ">=", "<<", ">>", "&^"}
		matched := false
		for _, op := range ops {
			if strings.HasPrefix(l.s[l.pos:], op) {
				l.pos += len(op)
				matched = true
				break
			}
		}
		if !matched {
			l.pos++
		}
		l.kind = 'o'
	}
	l.tok = l.s[start:l.pos]
}

// afterOperand reports whether the previous non-space character ends an operand.
func (l *lexer) afterOperand() bool {
	i := l.pos - 1
	if i >= 0 && l.s[i] == '.' {
		i--
	}
	for i >= 0 && (l.s[i] == ' ' || l.s[i] == '\t') {
		i--
	}
	if i < 0 {
		return false
	}
	c := l.s[i]
	return isIdentStart(c) || isDigit(c) || c == ')' || c == ']'
}

func isIdentStart(c byte) bool {
	return c == '_' || c == '$' || (c >= 'a' && c <= 'z') || (c >= 'A' && c <= 'Z')
}
func isDigit(c byte) bool { return c >= '0' && c <= '9' }

type exprParser struct {
	l   lexer
	err error
}

// ParseExpr parses a contract expression.
func ParseExpr(s string) (e Expr, err error) {
	p := &exprParser{l: lexer{s: s}}
	defer func() {
		if r := recover(); r != nil {
			if pe, ok := r.(parseErr); ok {
				err = fmt.Errorf("parse error in %q: %s", s, string(pe))
				return
			}
			panic(r)
		}
	}()
	p.l.next()
	e = p.parseImplies()
	if p.l.kind != 0 {
		p.fail("unexpected token " + p.l.tok)
	}
	return e, nil
}

type parseErr string

func (p *exprParser) fail(msg string) { panic(parseErr(fmt.Sprintf("%s at offset %d", msg, p.l.pos))) }

func (p *exprParser) accept(tok string) bool {
	if p.l.kind != 0 && p.l.tok == tok && p.l.kind != 's' {
		p.l.next()
		return true
	}
	return false
}

func (p *exprParser) expect(tok string) {
	if !p.accept(tok) {
		p.fail("expected " + tok + " got " + p.l.tok)
	}
}

func (p *exprParser) parseImplies() Expr {
	x := p.parseCond()
	if p.accept("==>") {
		y := p.parseImplies()
		return &EBinary{"==>", x, y}
	}
	if p.accept("<==>") {
		y := p.parseImplies()
		return &EBinary{"<==>", x, y}
	}
	return x
}

func (p *exprParser) parseCond() Expr {
	c := p.parseBin(0)
	if p.accept("?") {
		a := p.parseCond()
		p.expect(":")
		b := p.parseCond()
		return &ECond{c, a, b}
	}
	return c
}

var binPrec = map[string]int{
	"||": 1, "&&": 2,
	"==": 3, "!=": 3, "<": 3, "<=": 3, ">": 3, ">=": 3,
	"+": 4, "-": 4, "|": 4, "^": 4,
	"*": 5, "/": 5, "%": 5, "<<": 5, ">>": 5, "&": 5, "&^": 5,
}

func (p *exprParser) parseBin(minPrec int) Expr {
	x := p.parseUnary()
	for {
		if p.l.kind != 'o' {
			return x
		}
		prec, ok := binPrec[p.l.tok]
		if !ok || prec <= minPrec {
			return x
		}
		op := p.l.tok
		p.l.next()
		y := p.parseBin(prec)
		x = &EBinary{op, x, y}
	}
}

func (p *exprParser) parseUnary() Expr {
	if p.l.kind == 'o' && (p.l.tok == "!" || p.l.tok == "-" || p.l.tok == "+" || p.l.tok == "*") {
		op := p.l.tok
		p.l.next()
		x := p.parseUnary()
		if op == "+" {
			return x
		}
		return &EUnary{op, x}
	}
	return p.parsePostfix()
}

func (p *exprParser) parsePostfix() Expr {
	x := p.parsePrimary()
	for {
		switch {
		case p.accept("."):
			if p.l.kind != 'i' && p.l.kind != 'n' {
				p.fail("selector expected")
			}
			x = &ESel{x, p.l.tok}
			p.l.next()
		case p.accept("("):
			var args []Expr
			for !p.accept(")") {
				args = append(args, p.parseImplies())
				if !p.accept(",") {
					p.expect(")")
					break
				}
			}
			x = &ECall{x, args}
		case p.accept("["):
			var lo, hi Expr
			if p.l.tok != ":" {
				lo = p.parseImplies()
			}
			if p.accept(":") {
				if p.l.tok != "]" {
					hi = p.parseImplies()
				}
				p.expect("]")
				x = &ESlice{x, lo, hi}
			} else {
				p.expect("]")
				x = &EIndex{x, lo}
			}
		default:
			return x
		}
	}
}

func (p *exprParser) parsePrimary() Expr {
	switch p.l.kind {
	case 'i':
		name := p.l.tok
		p.l.next()
		switch name {
		case "true":
			return &EBool{true}
		case "false":
			return &EBool{false}
		}
		return &EIdent{name}
	case 'n':
		t := strings.ReplaceAll(p.l.tok, "_", "")
		p.l.next()
		if strings.HasPrefix(t, "0x") {
			v, ok := new(big.Int).SetString(t[2:], 16)
			if !ok {
				p.fail("bad hex literal " + t)
			}
			return &EInt{v}
		}
		if strings.ContainsAny(t, ".e") {
			r, ok := new(big.Rat).SetString(t)
			if !ok {
				p.fail("bad float literal " + t)
			}
			return &EFloat{r}
		}
		v, ok := new(big.Int).SetString(t, 10)
		if !ok {
			p.fail("bad int literal " + t)
		}
		return &EInt{v}
	case 's':
		s, err := strconv.Unquote(p.l.tok)
		if err != nil {
			p.fail("bad string literal")
		}
		p.l.next()
		return &EString{s}
	case 'o':
		if p.accept("(") {
			x := p.parseImplies()
			p.expect(")")
			return x
		}
	}
	p.fail("unexpected token " + p.l.tok)
	return nil
}

// ---------------------------------------------------------------------
// Contract files

type Clause struct {
	Kind  string // requires / ensures / invariant / ...
	Label string // optional label (name:)
	Text  string
	E     Expr
	File  string
	Line  int
}

type LoopSpec struct {
	Invariants []*Clause
	Unroll     int  // >0: unroll at most this many iterations
	Exact      bool // unroll declared exact (unwinding obligation must discharge)
	Decreases  *Clause
	Increases  *Clause // progress measure: strictly larger after every iteration
	Exits      []*Clause // loop postconditions: must hold on every exit edge
}

type Param struct{ Name, Type string }

type FuncContract struct {
	Name     string
	Props    []string
	Model    string // "real" | "fp"
	Requires []*Clause
	Ensures  []*Clause
	Lets     []*Clause // let name = expr (evaluated at entry)
	Loops    map[int]*LoopSpec
	Inline   bool
	Trusted  bool
	Safety   bool
	Pure     bool   // assigns nothing
	Assigns  string // raw assigns text ("nothing" or list)
	PureArgs []string
	Notes    []string
	Opts     map[string]string
	File     string
	Line     int
	// spec functions / lemmas
	Params        []Param
	RetType       string
	Body          *Clause
	Kind          string                   // func | spec | lemma | interface | global
	Methods       map[string]*FuncContract // for interfaces
	Uses          []*Clause                // lemma instantiations: use name(args)
	Asserts       []*Clause
	OnCall        map[string][]*Clause // per function-valued parameter: obligation at each call (args: arg0, arg1, ...)
	AssumeCB      map[string][]*Clause // per function-valued parameter: assumed of every result (args: arg0.., result)
	CountCall     map[string][]*Clause // per function-valued parameter: ghost counter (Label) += 1 at each call where the clause holds
	InlineCallees map[string]bool
	UseEnsures    map[string]map[string]bool // callee -> labels of the only postconditions assumed at its call sites
	AtCall        map[string][]*Clause // static callee -> obligations at each call of it in this function (arg0.. = the call's arguments)
	Instances     map[string]map[string][]Expr // callee -> label of a postcondition forall(k, "T", body) -> terms it is instantiated at
	UseEnsuresAt  map[string]map[string]map[string]bool // own postcondition label -> callee -> labels (overrides UseEnsures for that obligation)
	UseAll        []string // lemmas assumed in universally quantified form
}

type ContractSet struct {
	Funcs      map[string]*FuncContract // by normalized SSA name
	Specs      map[string]*FuncContract
	Lemmas     map[string]*FuncContract
	Interfaces map[string]*FuncContract
	Order      []*FuncContract
}

func NewContractSet() *ContractSet {
	return &ContractSet{Funcs: map[string]*FuncContract{}, Specs: map[string]*FuncContract{},
		Lemmas: map[string]*FuncContract{}, Interfaces: map[string]*FuncContract{}}
}

var clauseKeywords = map[string]bool{
	"property": true, "model": true, "requires": true, "ensures": true, "loop": true,
	"inline": true, "trusted": true, "safety": true, "pure": true, "assigns": true,
	"let": true, "note": true, "method": true, "body": true, "use": true, "opt": true,
	"assert": true, "purearg": true, "olet": true, "assumecb": true, "countcall": true, "oncall": true, "inlinecall": true, "useall": true, "useensures": true, "instances": true, "atcall": true,
}

// ParseContractFile reads one verif_contracts.go file.
func (cs *ContractSet) ParseContractFile(path string) error {
	f, err := os.Open(path)
	if err != nil {
		return err
	}
	defer f.Close()
	sc := bufio.NewScanner(f)
	sc.Buffer(make([]byte, 1<<20), 1<<20)
	var cur *FuncContract
	var curMethod *FuncContract
	type pending struct {
		kw   string
		text string
		line int
	}
	var pend *pending
	var firstErr error
	fail := func(line int, format string, a ...interface{}) {
		if firstErr == nil {
			firstErr = fmt.Errorf("%s:%d: %s", path, line, fmt.Sprintf(format, a...))
		}
	}
	flush := func() {
		if pend == nil {
			return
		}
		p := pend
		pend = nil
		tgt := cur
		if curMethod != nil && p.kw != "method" {
			tgt = curMethod
		}
		if tgt == nil {
			fail(p.line, "clause outside of a block")
			return
		}
		if err := cs.addClause(tgt, p.kw, strings.TrimSpace(p.text), path, p.line); err != nil {
			fail(p.line, "%v", err)
		}
		if p.kw == "method" && cur != nil {
			name := strings.Fields(p.text)[0]
			m := &FuncContract{Name: cur.Name + "." + name, Kind: "method", Loops: map[int]*LoopSpec{}, Opts: map[string]string{}, File: path, Line: p.line}
			if cur.Methods == nil {
				cur.Methods = map[string]*FuncContract{}
			}
			cur.Methods[name] = m
			curMethod = m
		}
	}
	lineNo := 0
	for sc.Scan() {
		lineNo++
		line := strings.TrimSpace(sc.Text())
		if !strings.HasPrefix(line, "//@") {
			continue
		}
		body := strings.TrimSpace(line[3:])
		if body == "" {
			continue
		}
		// strip trailing comments introduced by " // "
		if i := strings.Index(body, " // "); i >= 0 {
			body = strings.TrimSpace(body[:i])
		}
		fields := strings.Fields(body)
		kw := fields[0]
		rest := strings.TrimSpace(body[len(kw):])
		switch kw {
		case "func", "spec", "lemma", "interface", "global":
			flush()
			curMethod = nil
			c := &FuncContract{Kind: kw, Loops: map[int]*LoopSpec{}, Opts: map[string]string{}, File: path, Line: lineNo}
			if err := cs.parseHeader(c, rest); err != nil {
				fail(lineNo, "%v", err)
			}
			cur = c
			cs.Order = append(cs.Order, c)
			switch kw {
			case "func", "global":
				if _, dup := cs.Funcs[c.Name]; dup {
					fail(lineNo, "duplicate contract for %s", c.Name)
				}
				cs.Funcs[c.Name] = c
			case "spec":
				if _, dup := cs.Specs[c.Name]; dup {
					fail(lineNo, "duplicate spec %s (spec names are global)", c.Name)
				}
				cs.Specs[c.Name] = c
			case "lemma":
				if _, dup := cs.Lemmas[c.Name]; dup {
					fail(lineNo, "duplicate lemma %s (lemma names are global)", c.Name)
				}
				cs.Lemmas[c.Name] = c
			case "interface":
				cs.Interfaces[c.Name] = c
			}
		default:
			if clauseKeywords[kw] {
				flush()
				pend = &pending{kw: kw, text: rest, line: lineNo}
			} else if pend != nil {
				pend.text += " " + body
			} else if cur != nil && (cur.Kind == "spec") && cur.Body == nil {
				pend = &pending{kw: "body", text: body, line: lineNo}
			} else {
				fail(lineNo, "unknown clause keyword %q", kw)
			}
		}
	}
	flush()
	return firstErr
}

// parseHeader parses "name", or "name(p T, q U) R [= expr]" for specs/lemmas.
func (cs *ContractSet) parseHeader(c *FuncContract, rest string) error {
	if c.Kind == "func" || c.Kind == "interface" || c.Kind == "global" {
		c.Name = normalizeFuncName(strings.TrimSpace(rest))
		if c.Name == "" {
			return fmt.Errorf("missing name")
		}
		return nil
	}
	// spec / lemma
	i := strings.Index(rest, "(")
	if i < 0 {
		return fmt.Errorf("spec/lemma header needs parameter list")
	}
	c.Name = strings.TrimSpace(rest[:i])
	depth := 0
	j := i
	for ; j < len(rest); j++ {
		if rest[j] == '(' {
			depth++
		} else if rest[j] == ')' {
			depth--
			if depth == 0 {
				break
			}
		}
	}
	if j >= len(rest) {
		return fmt.Errorf("unbalanced parameter list")
	}
	plist := rest[i+1 : j]
	for _, ps := range splitTop(plist, ',') {
		ps = strings.TrimSpace(ps)
		if ps == "" {
			continue
		}
		fs := strings.Fields(ps)
		if len(fs) < 2 {
			return fmt.Errorf("parameter %q needs a type", ps)
		}
		c.Params = append(c.Params, Param{fs[0], strings.Join(fs[1:], " ")})
	}
	tail := strings.TrimSpace(rest[j+1:])
	if eq := strings.Index(tail, "="); eq >= 0 && !strings.HasPrefix(tail[eq:], "==") {
		c.RetType = strings.TrimSpace(tail[:eq])
		bodyText := strings.TrimSpace(tail[eq+1:])
		if bodyText != "" {
			e, err := ParseExpr(bodyText)
			if err != nil {
				return err
			}
			c.Body = &Clause{Kind: "body", Text: bodyText, E: e, File: c.File, Line: c.Line}
		}
	} else {
		c.RetType = tail
	}
	return nil
}

func splitTop(s string, sep byte) []string {
	var out []string
	depth := 0
	start := 0
	for i := 0; i < len(s); i++ {
		switch s[i] {
		case '(', '[':
			depth++
		case ')', ']':
			depth--
		default:
			if s[i] == sep && depth == 0 {
				out = append(out, s[start:i])
				start = i + 1
			}
		}
	}
	out = append(out, s[start:])
	return out
}

const modPrefix = "github.com/unixpickle/model3d/"

func normalizeFuncName(s string) string {
	return strings.ReplaceAll(s, modPrefix, "")
}

func (cs *ContractSet) addClause(c *FuncContract, kw, text, file string, line int) error {
	mk := func(kind, t string) (*Clause, error) {
		label := ""
		// optional label "name: expr" (identifier followed by ':' and not '::')
		if i := strings.Index(t, ":"); i > 0 && isSimpleIdent(t[:i]) {
			label = t[:i]
			t = strings.TrimSpace(t[i+1:])
		}
		e, err := ParseExpr(t)
		if err != nil {
			return nil, err
		}
		return &Clause{Kind: kind, Label: label, Text: t, E: e, File: file, Line: line}, nil
	}
	switch kw {
	case "property":
		c.Props = append(c.Props, strings.Fields(strings.ReplaceAll(text, ",", " "))...)
	case "model":
		c.Model = strings.TrimPrefix(strings.TrimSpace(text), "float=")
	case "requires":
		cl, err := mk(kw, text)
		if err != nil {
			return err
		}
		c.Requires = append(c.Requires, cl)
	case "ensures":
		cl, err := mk(kw, text)
		if err != nil {
			return err
		}
		c.Ensures = append(c.Ensures, cl)
	case "assert":
		cl, err := mk(kw, text)
		if err != nil {
			return err
		}
		c.Asserts = append(c.Asserts, cl)
	case "use":
		cl, err := mk(kw, text)
		if err != nil {
			return err
		}
		c.Uses = append(c.Uses, cl)
	case "body":
		cl, err := mk(kw, text)
		if err != nil {
			return err
		}
		c.Body = cl
	case "let":
		i := strings.Index(text, "=")
		if i < 0 {
			return fmt.Errorf("let needs name = expr")
		}
		e, err := ParseExpr(strings.TrimSpace(text[i+1:]))
		if err != nil {
			return err
		}
		c.Lets = append(c.Lets, &Clause{Kind: "let", Label: strings.TrimSpace(text[:i]), Text: text, E: e, File: file, Line: line})
	case "olet":
		// opaque let: a fresh constant constrained to equal the expression (keeps
		// nonlinear definitions out of quantifier bounds)
		i := strings.Index(text, "=")
		if i < 0 {
			return fmt.Errorf("olet needs name = expr")
		}
		e, err := ParseExpr(strings.TrimSpace(text[i+1:]))
		if err != nil {
			return err
		}
		c.Lets = append(c.Lets, &Clause{Kind: "olet", Label: strings.TrimSpace(text[:i]), Text: text, E: e, File: file, Line: line})
	case "loop":
		fs := strings.Fields(text)
		if len(fs) < 2 {
			return fmt.Errorf("loop clause: loop N invariant|unroll ...")
		}
		n, err := strconv.Atoi(strings.TrimSuffix(fs[0], ":"))
		if err != nil {
			return fmt.Errorf("loop ordinal: %v", err)
		}
		ls := c.Loops[n]
		if ls == nil {
			ls = &LoopSpec{}
			c.Loops[n] = ls
		}
		rest := strings.TrimSpace(text[strings.Index(text, fs[1])+len(fs[1]):])
		switch fs[1] {
		case "invariant":
			cl, err := mk("invariant", rest)
			if err != nil {
				return err
			}
			ls.Invariants = append(ls.Invariants, cl)
		case "unroll":
			k, err := strconv.Atoi(strings.Fields(rest)[0])
			if err != nil {
				return err
			}
			ls.Unroll = k
			ls.Exact = true
		case "decreases":
			cl, err := mk("decreases", rest)
			if err != nil {
				return err
			}
			ls.Decreases = cl
		case "exit":
			cl, err := mk("exit", rest)
			if err != nil {
				return err
			}
			ls.Exits = append(ls.Exits, cl)
		case "increases":
			cl, err := mk("increases", rest)
			if err != nil {
				return err
			}
			ls.Increases = cl
		default:
			return fmt.Errorf("unknown loop clause %q", fs[1])
		}
	case "oncall":
		fs := strings.Fields(text)
		if len(fs) < 2 {
			return fmt.Errorf("oncall <param> <expr>")
		}
		cl, err := mk("oncall", strings.TrimSpace(text[len(fs[0]):]))
		if err != nil {
			return err
		}
		if c.OnCall == nil {
			c.OnCall = map[string][]*Clause{}
		}
		if !isSimpleIdent(fs[0]) {
			return fmt.Errorf("oncall names a function-valued parameter or a channel variable, not %q", fs[0])
		}
		c.OnCall[fs[0]] = append(c.OnCall[fs[0]], cl)
	case "countcall":
		// countcall <param> <ghost> <cond>: ghost(<ghost>) counts the calls of <param> for which <cond> holds
		fs := strings.Fields(text)
		if len(fs) < 3 {
			return fmt.Errorf("countcall <param> <ghost> <expr>")
		}
		rest := strings.TrimSpace(strings.TrimPrefix(strings.TrimSpace(text[len(fs[0]):]), fs[1]))
		e, err := ParseExpr(rest)
		if err != nil {
			return err
		}
		if c.CountCall == nil {
			c.CountCall = map[string][]*Clause{}
		}
		c.CountCall[fs[0]] = append(c.CountCall[fs[0]], &Clause{Kind: "countcall", Label: fs[1], Text: rest, E: e, File: file, Line: line})
	case "assumecb":
		fs := strings.Fields(text)
		if len(fs) < 2 {
			return fmt.Errorf("assumecb <param> <expr>")
		}
		cl, err := mk("assumecb", strings.TrimSpace(text[len(fs[0]):]))
		if err != nil {
			return err
		}
		if c.AssumeCB == nil {
			c.AssumeCB = map[string][]*Clause{}
		}
		c.AssumeCB[fs[0]] = append(c.AssumeCB[fs[0]], cl)
	case "inlinecall":
		if c.InlineCallees == nil {
			c.InlineCallees = map[string]bool{}
		}
		for _, f := range strings.Fields(text) {
			c.InlineCallees[normalizeFuncName(f)] = true
		}
	case "useensures":
		// useensures [@ownlabel] <callee> <label>...
		fs := strings.Fields(text)
		at := ""
		if len(fs) > 0 && strings.HasPrefix(fs[0], "@") {
			at = fs[0][1:]
			fs = fs[1:]
		}
		if len(fs) < 2 {
			return fmt.Errorf("useensures needs a callee and at least one label")
		}
		k := normalizeFuncName(fs[0])
		var set map[string]bool
		if at == "" {
			if c.UseEnsures == nil {
				c.UseEnsures = map[string]map[string]bool{}
			}
			if c.UseEnsures[k] == nil {
				c.UseEnsures[k] = map[string]bool{}
			}
			set = c.UseEnsures[k]
		} else {
			if c.UseEnsuresAt == nil {
				c.UseEnsuresAt = map[string]map[string]map[string]bool{}
			}
			if c.UseEnsuresAt[at] == nil {
				c.UseEnsuresAt[at] = map[string]map[string]bool{}
			}
			if c.UseEnsuresAt[at][k] == nil {
				c.UseEnsuresAt[at][k] = map[string]bool{}
			}
			set = c.UseEnsuresAt[at][k]
		}
		for _, l := range fs[1:] {
			set[l] = true
		}
	case "atcall":
		// atcall <callee> [label:] <expr>: obligation in the caller's state at every
		// static call of <callee>; arg0, arg1, ... are the arguments of that call
		fs := strings.Fields(text)
		if len(fs) < 2 {
			return fmt.Errorf("atcall <callee> <expr>")
		}
		cl, err := mk("atcall", strings.TrimSpace(strings.TrimPrefix(strings.TrimSpace(text), fs[0])))
		if err != nil {
			return err
		}
		if c.AtCall == nil {
			c.AtCall = map[string][]*Clause{}
		}
		k := normalizeFuncName(fs[0])
		c.AtCall[k] = append(c.AtCall[k], cl)
	case "instances":
		// instances <callee> <label> <expr> ; <expr> ...: the postcondition <label> of
		// <callee> (a forall(k, "T", body)) is also assumed at these terms
		fs := strings.Fields(text)
		if len(fs) < 3 {
			return fmt.Errorf("instances <callee> <label> <expr> ; <expr> ...")
		}
		rest := strings.TrimSpace(strings.TrimPrefix(strings.TrimSpace(strings.TrimPrefix(strings.TrimSpace(text), fs[0])), fs[1]))
		if c.Instances == nil {
			c.Instances = map[string]map[string][]Expr{}
		}
		k := normalizeFuncName(fs[0])
		if c.Instances[k] == nil {
			c.Instances[k] = map[string][]Expr{}
		}
		for _, part := range strings.Split(rest, ";") {
			e, err := ParseExpr(strings.TrimSpace(part))
			if err != nil {
				return err
			}
			c.Instances[k][fs[1]] = append(c.Instances[k][fs[1]], e)
		}
	case "useall":
		c.UseAll = append(c.UseAll, strings.Fields(text)...)
	case "inline":
		c.Inline = true
	case "trusted":
		c.Trusted = true
	case "safety":
		c.Safety = true
	case "pure":
		c.Pure = true
		c.PureArgs = append(c.PureArgs, strings.Fields(text)...)
	case "purearg":
		c.PureArgs = append(c.PureArgs, strings.Fields(text)...)
	case "assigns":
		c.Assigns = text
		if strings.TrimSpace(text) == "nothing" {
			c.Pure = true
		}
	case "note":
		c.Notes = append(c.Notes, text)
	case "opt":
		fs := strings.Fields(text)
		if len(fs) == 1 {
			c.Opts[fs[0]] = "1"
		} else if len(fs) >= 2 {
			c.Opts[fs[0]] = strings.Join(fs[1:], " ")
		}
	case "method":
		// handled by caller
	default:
		return fmt.Errorf("unknown clause %q", kw)
	}
	return nil
}

func isSimpleIdent(s string) bool {
	if s == "" {
		return false
	}
	for i := 0; i < len(s); i++ {
		c := s[i]
		if !(c == '_' || (c >= 'a' && c <= 'z') || (c >= 'A' && c <= 'Z') || (i > 0 && (isDigit(c) || c == '-'))) {
			return false
		}
	}
	return true
}

func (c *FuncContract) HasProp(p string) bool {
	for _, q := range c.Props {
		if q == p {
			return true
		}
	}
	return false
}
