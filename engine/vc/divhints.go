package vc

// Division hints: valid facts of integer arithmetic, instantiated syntactically,
// that spare the solver the nonlinear search for a quotient.
//
//	dividend == k*c + rest  (a polynomial identity, by construction)
//	c > 0 && k >= 0 && 0 <= rest < c   ==>   dividend >= 0 && dividend div c == k && dividend mod c == rest
//
// Every emitted hint is a tautology of integer arithmetic given the alias
// equalities in its antecedent, so adding it as a hypothesis is sound; which
// hints are emitted is only a heuristic.

import (
	"fmt"

	"verifengine/smt"
)

type signedAtom struct {
	neg bool
	t   *smt.Term
}

// flattenSum returns atoms with a == sum(+-atom) given the returned alias equalities.
func (x *Exec) flattenSum(a *smt.Term, neg bool, depth int, out *[]signedAtom, eqs *[]*smt.Term) {
	if depth < 12 && a.IntV == nil {
		switch {
		case a.Op == "+":
			for _, s := range a.Args {
				x.flattenSum(s, neg, depth+1, out, eqs)
			}
			return
		case a.Op == "-" && len(a.Args) == 2:
			x.flattenSum(a.Args[0], neg, depth+1, out, eqs)
			x.flattenSum(a.Args[1], !neg, depth+1, out, eqs)
			return
		case a.Op == "-" && len(a.Args) == 1:
			x.flattenSum(a.Args[0], !neg, depth+1, out, eqs)
			return
		}
		if al, ok := x.divAlias[a.ID]; ok && len(*eqs) < 6 {
			*eqs = append(*eqs, x.b.Eq(a, al))
			x.flattenSum(al, neg, depth+1, out, eqs)
			return
		}
	}
	*out = append(*out, signedAtom{neg, a})
}

func flattenProd(t *smt.Term, depth int, out *[]*smt.Term) {
	if t.Op == "*" && depth < 6 {
		for _, a := range t.Args {
			flattenProd(a, depth+1, out)
		}
		return
	}
	*out = append(*out, t)
}

func (x *Exec) divHints(a, c, quo *smt.Term) {
	if a.Bound || c.Bound || a.Sort != "Int" {
		return
	}
	key := fmt.Sprintf("divhint:%d:%d", a.ID, c.ID)
	if x.ufDecl[key] {
		return
	}
	x.ufDecl[key] = true
	if x.divAlias == nil {
		x.divAlias = map[int]*smt.Term{}
	}
	var atoms []signedAtom
	var eqs []*smt.Term
	x.flattenSum(a, false, 0, &atoms, &eqs)
	// cancel +t / -t pairs
	for i := 0; i < len(atoms); i++ {
		if atoms[i].t == nil {
			continue
		}
		for j := i + 1; j < len(atoms); j++ {
			if atoms[j].t != nil && atoms[j].t.ID == atoms[i].t.ID && atoms[j].neg != atoms[i].neg {
				atoms[i].t, atoms[j].t = nil, nil
				break
			}
		}
	}
	var live []signedAtom
	for _, s := range atoms {
		if s.t != nil {
			live = append(live, s)
		}
	}
	if len(live) > 24 {
		return
	}
	// the divisor may itself be known under an alias
	emitted := 0
	for i, s := range live {
		if s.neg || emitted >= 2 {
			continue
		}
		var fs []*smt.Term
		flattenProd(s.t, 0, &fs)
		at := -1
		for k, f := range fs {
			if f.ID == c.ID {
				at = k
				break
			}
		}
		if at < 0 {
			continue
		}
		kq := x.b.Int(1)
		for k, f := range fs {
			if k != at {
				kq = x.b.Mul(kq, f)
			}
		}
		rest := x.b.Int(0)
		for j, o := range live {
			if j == i {
				continue
			}
			if o.neg {
				rest = x.b.Sub(rest, o.t)
			} else {
				rest = x.b.Add(rest, o.t)
			}
		}
		zero := x.b.Int(0)
		ante := append(append([]*smt.Term{}, eqs...), x.b.Cmp(">", c, zero), x.b.Cmp(">=", kq, zero), x.b.Cmp("<=", zero, rest), x.b.Cmp("<", rest, c))
		concl := x.b.And(x.b.Cmp(">=", a, zero), x.b.Eq(x.b.App("div", "Int", a, c), kq), x.b.Eq(x.b.App("mod", "Int", a, c), rest))
		hint := x.b.Implies(x.b.And(ante...), concl)
		x.axiom(hint)
		if x.hintDiv == nil {
			x.hintDiv = map[int]int{}
		}
		x.hintDiv[hint.ID] = x.b.App("div", "Int", a, c).ID
		if emitted == 0 {
			x.divAlias[quo.ID] = kq
			x.divRest[[2]int{a.ID, c.ID}] = rest
		}
		emitted++
	}
	if emitted > 0 {
		x.note("integer division hints: valid quotient/remainder facts instantiated for dividends of the form k*c+rest")
	}
}
