package vc

import (
	"sort"
	"fmt"
	"go/types"
	"math/big"
	"strings"

	"golang.org/x/tools/go/ssa"

	"verifengine/smt"
)

// call executes a call instruction and returns its result value (nil for none).
func (x *Exec) call(bc *blockCtx, in ssa.Instruction, cc *ssa.CallCommon) *Val {
	fr := bc.fr
	var args []*Val
	for _, a := range cc.Args {
		args = append(args, x.valueIn(fr, bc.env, a))
	}
	resT := cc.Signature().Results()
	if cc.IsInvoke() {
		recv := x.valueIn(fr, bc.env, cc.Value)
		return x.invoke(bc, in, recv, cc.Method, args, resT)
	}
	switch f := cc.Value.(type) {
	case *ssa.Builtin:
		return x.builtin(bc, in, f, cc, args)
	case *ssa.Function:
		return x.callStatic(bc, in, f, nil, args)
	case *ssa.MakeClosure:
		cl := x.valueIn(fr, bc.env, f)
		return x.callStatic(bc, in, cl.Fn, cl.Binds, args)
	}
	fv := x.valueIn(fr, bc.env, cc.Value)
	if fv.Fn != nil {
		return x.callStatic(bc, in, fv.Fn, fv.Binds, args)
	}
	return x.callDynamic(bc, in, fv, cc, args)
}

func fnKey(f *ssa.Function) string {
	return normalizeFuncName(f.String())
}

func (x *Exec) onStack(f *ssa.Function) bool {
	for _, g := range x.stack {
		if g == f {
			return true
		}
	}
	return false
}

// callStatic handles a call to a known function.
func (x *Exec) callStatic(bc *blockCtx, in ssa.Instruction, f *ssa.Function, binds []*Val, args []*Val) *Val {
	saved := x.curArgs
	x.curArgs = args
	x.atCallObligations(bc, in, fnKey(f), args)
	res := x.callStatic1(bc, in, f, binds, args)
	x.curArgs = saved
	if res != nil && x.spec == 0 && bc.fr.depth == 0 && in != nil {
		if x.callRes == nil {
			x.callRes = map[string]map[ssa.Instruction]*Val{}
		}
		k := fnKey(f)
		if x.callRes[k] == nil {
			x.callRes[k] = map[ssa.Instruction]*Val{}
		}
		x.callRes[k][in] = res
	}
	x.publishSnapshot(bc, fnKey(f))
	return res
}

// atCallObligations: `atcall <callee> <expr>` clauses of the function under contract.
func (x *Exec) atCallObligations(bc *blockCtx, in ssa.Instruction, callee string, args []*Val) {
	if x.rootC == nil || x.rootC.AtCall == nil || x.spec != 0 || bc.fr.depth != 0 {
		return
	}
	cls := x.rootC.AtCall[callee]
	for i, cl := range cls {
		vars := map[string]*Val{}
		for k, w := range bc.fr.params {
			vars[k] = w
		}
		for j, a := range args {
			vars[fmt.Sprintf("arg%d", j)] = a
		}
		ce := &CEnv{x: x, fr: bc.fr, st: bc.st, old: bc.fr.entry, vars: vars, lets: bc.fr.lets, guard: bc.reach, fc: bc.fr.fc, env: bc.env}
		if bc.fr.loops != nil {
			ce.loop = bc.fr.loops.innerOf[bc.b]
		}
		lab := fmt.Sprintf("#%d", i)
		if cl.Label != "" {
			lab = ":" + cl.Label
		}
		x.oblige("atcall", fmt.Sprintf("%satcall(%s)%s", bc.fr.prefix, shortFn(callee), lab), bc.reach, x.evalBool(ce, cl), posOf(in), cl.Text, false)
	}
}

// publishSnapshot: `opt publishlast <callee>` on the function under contract names
// the call that makes an object visible to other goroutines (an atomic store).
// The memory state right after that call is remembered in ghost copies GP_<heap>;
// at every return the real heaps must still equal them (publishObligations): the
// object is complete when it is published and nothing is written afterwards.
func (x *Exec) publishSnapshot(bc *blockCtx, callee string) {
	if x.rootC == nil || x.spec != 0 || bc.fr.depth != 0 {
		return
	}
	want := x.rootC.Opts["publishlast"]
	if want == "" || normalizeFuncName(want) != callee {
		return
	}
	var keys []string
	for k := range x.heapSorts {
		if strings.HasPrefix(k, "G_") || strings.HasPrefix(k, "GA_") || strings.HasPrefix(k, "GP_") {
			continue
		}
		keys = append(keys, k)
	}
	sort.Strings(keys)
	for _, k := range keys {
		x.heapSorts["GP_"+k] = x.heapSorts[k]
		bc.st.heaps["GP_"+k] = x.getHeap(bc.st, k)
	}
	if !x.publishSeen {
		x.heapSorts["G_published"] = "Int"
		x.hyps = append(x.hyps, x.b.Eq(x.initHeap("G_published"), x.b.Int(0)))
	}
	bc.st.heaps["G_published"] = x.b.Int(1)
	x.publishSeen = true
}

func (x *Exec) callStatic1(bc *blockCtx, in ssa.Instruction, f *ssa.Function, binds []*Val, args []*Val) *Val {
	name := fnKey(f)
	if f.Origin() != nil {
		if _, ok := x.prog.Contracts.Funcs[name]; !ok {
			name = fnKey(f.Origin())
		}
	}
	if r, ok := x.modelCall(bc, in, name, f, args); ok {
		return r
	}
	if x.isOpaque(name) {
		x.note("opaque in this lemma (uninterpreted function of its arguments; pointer arguments stand for their unmodified pointees): " + name)
		return x.pureFuncApp(&CEnv{x: x, st: bc.st, old: bc.st, guard: bc.reach, pkg: fnPkg(f), depth: 3}, f, &FuncContract{Name: name}, args)
	}
	fc := x.prog.Contracts.Funcs[name]
	if fc != nil && x.rootC != nil && x.rootC.InlineCallees[name] {
		fc = nil
	}
	if fc != nil && !fc.Inline {
		return x.applyContract(bc, in, f, fc, args, binds)
	}
	if len(f.Blocks) == 0 && f.Synthetic != "" {
		// wrapper / bound method without body: not built
		panic(unsupported("synthetic function without body: " + name))
	}
	if len(f.Blocks) > 0 && !x.onStack(f) && bc.fr.depth < x.maxInline && x.inlinable(f) {
		return x.inlineCall(bc, in, f, binds, args)
	}
	// unknown callee: havoc result and all heaps
	x.note("havoc'd callee (no contract, not inlinable): " + name)
	return x.havocCall(bc, f.Signature, name, true)
}

func (x *Exec) havocCall(bc *blockCtx, sig *types.Signature, name string, heaps bool) *Val {
	if heaps {
		olds := map[string]*smt.Term{}
		for k := range x.heapSorts {
			if k == "G_locked" {
				// calls are lock-balanced unless their contract lists G_locked
				continue
			}
			old := x.getHeap(bc.st, k)
			olds[k] = old
			bc.st.heaps[k] = x.b.Fresh(k+"_after_"+shortFn(name), x.heapSorts[k])
			if k == "G_alloc" {
				x.axiom(x.b.Cmp(">=", bc.st.heaps[k], old))
			}
		}
		x.preservePrivate(bc, olds, x.curArgs)
		x.havocAllOnCall = true
	}
	res := sig.Results()
	switch res.Len() {
	case 0:
		return nil
	case 1:
		return x.havoc(res.At(0).Type(), "ret_"+shortFn(name), bc.reach)
	}
	return x.havoc(res, "ret_"+shortFn(name), bc.reach)
}

func shortFn(name string) string {
	if i := strings.LastIndex(name, "/"); i >= 0 {
		name = name[i+1:]
	}
	return smt.Sanitize(name)
}

// inlineCall symbolically executes the callee body in place.
func (x *Exec) inlineCall(bc *blockCtx, in ssa.Instruction, f *ssa.Function, binds []*Val, args []*Val) *Val {
	x.actCount++
	sub := &Frame{fn: f, act: x.actCount, prefix: bc.fr.prefix, cells: map[*ssa.Alloc]*cellKey{}, depth: bc.fr.depth + 1, safety: bc.fr.safety}
	if bc.fr.safety {
		sub.prefix = bc.fr.prefix + shortFn(fnKey(f)) + "/"
	}
	sub.fc = x.prog.Contracts.Funcs[fnKey(f)]
	if sub.fc != nil && x.rootC != nil && x.rootC.InlineCallees[fnKey(f)] {
		// `inlinecall`: the callee is executed from its body as plain code - its own
		// loop invariants (which abstract the loops) are not used
		sub.fc = nil
	}
	sub.loops = x.prog.loopsOf(f)
	env := newEnv(nil)
	for i, p := range f.Params {
		env.vals[p] = args[i]
	}
	for i, fv := range f.FreeVars {
		if i < len(binds) {
			env.vals[fv] = binds[i]
		} else {
			panic(unsupported("closure called without bindings: " + f.String()))
		}
	}
	x.stack = append(x.stack, f)
	sub.entry = bc.st
	pending := map[*ssa.BasicBlock][]*Edge{f.Blocks[0]: {{from: nil, to: f.Blocks[0], cond: bc.reach, st: bc.st, env: env}}}
	x.execRegion(sub, nil, pending, env)
	x.stack = x.stack[:len(x.stack)-1]
	// merge returns
	if len(sub.returns) == 0 {
		// callee never returns (panics): path ends
		bc.reach = x.b.False
		return x.zeroResult(f.Signature)
	}
	var conds []*smt.Term
	var edges []*Edge
	for _, r := range sub.returns {
		conds = append(conds, r.cond)
		edges = append(edges, &Edge{cond: r.cond, st: r.st})
	}
	nst := x.mergeStates(edges)
	bc.st.cells = mergeCellsKeep(bc.st.cells, nst.cells)
	bc.st.heaps = nst.heaps
	bc.reach = x.b.Or(conds...)
	nres := f.Signature.Results().Len()
	if nres == 0 {
		return nil
	}
	var outs []*Val
	for k := 0; k < nres; k++ {
		var vs []*Val
		for _, r := range sub.returns {
			vs = append(vs, r.vals[k])
		}
		outs = append(outs, x.mergeVals(conds, vs))
	}
	if nres == 1 {
		return outs[0]
	}
	return &Val{Typ: f.Signature.Results(), Tup: outs}
}

func mergeCellsKeep(old, nw map[*cellKey]*smt.Term) map[*cellKey]*smt.Term {
	out := map[*cellKey]*smt.Term{}
	for k, v := range old {
		out[k] = v
	}
	for k, v := range nw {
		out[k] = v
	}
	return out
}

func (x *Exec) zeroResult(sig *types.Signature) *Val {
	res := sig.Results()
	switch res.Len() {
	case 0:
		return nil
	case 1:
		return &Val{Typ: res.At(0).Type(), T: x.zeroTerm(res.At(0).Type())}
	}
	r := &Val{Typ: res}
	for i := 0; i < res.Len(); i++ {
		r.Tup = append(r.Tup, &Val{Typ: res.At(i).Type(), T: x.zeroTerm(res.At(i).Type())})
	}
	return r
}

// applyContract uses the callee's contract modularly.
func (x *Exec) applyContract(bc *blockCtx, in ssa.Instruction, f *ssa.Function, fc *FuncContract, args []*Val, binds []*Val) *Val {
	name := fnKey(f)
	vars := map[string]*Val{}
	sig := f.Signature
	if len(f.Params) > 0 {
		for i, p := range f.Params {
			vars[p.Name()] = args[i]
		}
	} else {
		k := 0
		if sig.Recv() != nil {
			vars[sig.Recv().Name()] = args[0]
			k = 1
		}
		for i := 0; i < sig.Params().Len(); i++ {
			vars[sig.Params().At(i).Name()] = args[k+i]
		}
	}
	for i, fv := range f.FreeVars {
		if i < len(binds) {
			// captured variable: contracts refer to its current value by name
			loc := x.derefLoc(nil, nil, binds[i])
			vars[fv.Name()] = &Val{Typ: fv.Type().(*types.Pointer).Elem(), T: x.loadLoc(bc.st, loc)}
		}
	}
	if par := f.Parent(); par != nil {
		for _, prm := range par.Params {
			if _, ok := vars[prm.Name()]; !ok {
				vars[prm.Name()] = x.havoc(prm.Type(), "outer_"+prm.Name(), bc.reach)
			}
		}
	}
	pre := bc.st.clone()
	ce := &CEnv{x: x, st: pre, old: pre, vars: vars, pkg: fnPkg(f), guard: bc.reach, fc: fc}
	x.evalLets(ce, fc)
	if !fc.Trusted || len(fc.Requires) > 0 {
		for i, r := range fc.Requires {
			t := x.evalBool(ce, r)
			lab := fmt.Sprintf("#%d", i)
			if r.Label != "" {
				lab = ":" + r.Label
			}
			x.oblige("pre@call", fmt.Sprintf("%spre@call(%s)%s", bc.fr.prefix, shortFn(name), lab), bc.reach, t, posOf(in), r.Text, false)
		}
	}
	if fc.Trusted {
		x.note("trusted contract: " + name)
	}
	// effects
	if !fc.Pure {
		if fc.Assigns == "" {
			olds := map[string]*smt.Term{}
			for k := range x.heapSorts {
				if k == "G_locked" {
					continue
				}
				old := x.getHeap(bc.st, k)
				olds[k] = old
				bc.st.heaps[k] = x.b.Fresh(k+"_after_"+shortFn(name), x.heapSorts[k])
				if k == "G_alloc" {
					x.axiom(x.b.Cmp(">=", bc.st.heaps[k], old))
				}
			}
			x.preservePrivate(bc, olds, args)
			x.havocAllOnCall = true
		} else {
			for _, k := range strings.Fields(strings.ReplaceAll(fc.Assigns, ",", " ")) {
				x.lockedCallCheck(bc, in, ce, k, name)
				if as := x.assignLoc(ce, k); as != nil {
					// a single location: only that cell becomes unknown
					for ; as != nil; as = as.next {
						h := x.getHeap(bc.st, as.key)
						if as.idx == nil {
							bc.st.heaps[as.key] = x.sto(h, as.ref, x.b.Fresh("assigned_"+shortFn(name), as.elemSort))
						} else {
							arrSort := fmt.Sprintf("(Array Int %s)", as.elemSort)
							inner := x.sel(h, as.ref, arrSort)
							bc.st.heaps[as.key] = x.sto(h, as.ref, x.sto(inner, as.idx, x.b.Fresh("assigned_"+shortFn(name), as.elemSort)))
						}
					}
					continue
				}
				x.registerGhost(k)
				hk := x.resolveHeapName(ce, k)
				oldH := x.getHeap(bc.st, hk)
				bc.st.heaps[hk] = x.b.Fresh(hk+"_after_"+shortFn(name), x.heapSorts[hk])
				if hk == "G_alloc" {
					x.axiom(x.b.Cmp(">=", bc.st.heaps[hk], oldH))
				}
			}
		}
	}
	// any call may allocate: the allocation watermark never stays put because an
	// assigns clause did not mention it (otherwise fresh(..) in a postcondition
	// would contradict the caller's state)
	if !fc.Pure || len(fc.Ensures) > 0 {
		if _, ok := x.heapSorts["G_alloc"]; !ok {
			x.heapSorts["G_alloc"] = "Int"
		}
		oldWm := x.getHeap(pre, "G_alloc")
		if x.getHeap(bc.st, "G_alloc") == oldWm {
			nw := x.b.Fresh("G_alloc_after_"+shortFn(name), "Int")
			x.axiom(x.b.Cmp(">=", nw, oldWm))
			bc.st.heaps["G_alloc"] = nw
		}
	}
	// closures passed to the callee may run during the call: their effects on
	// the caller's state are not part of the callee's frame
	x.closureArgEffects(bc, args, name)
	var res *Val
	if fc.Pure && sig.Results().Len() >= 1 && len(f.FreeVars) == 0 {
		// deterministic: the result is a function of the arguments
		res = x.pureFuncApp(&CEnv{x: x, st: bc.st, old: pre, vars: vars, pkg: fnPkg(f), guard: bc.reach, fc: fc, depth: 3}, f, fc, args)
		if res.T != nil {
			x.rangeFacts(res.T, res.Typ, bc.reach, 1)
		}
	} else {
		res = x.havocResult(bc, sig, name)
	}
	post := &CEnv{x: x, st: bc.st, old: pre, vars: vars, pkg: fnPkg(f), guard: bc.reach, fc: fc, lets: ce.lets, hypo: true}
	x.bindResults(post, sig, res)
	nhBefore := len(x.hyps)
	var only map[string]bool
	if x.rootC != nil && x.rootC.UseEnsures != nil {
		only = x.rootC.UseEnsures[name]
		if only == nil {
			only = x.rootC.UseEnsures[fc.Name]
		}
		if only == nil && f.Origin() != nil {
			only = x.rootC.UseEnsures[fnKey(f.Origin())]
		}
	}
	var insts map[string][]Expr
	if x.rootC != nil && x.rootC.Instances != nil && x.spec == 0 {
		insts = x.rootC.Instances[name]
		if insts == nil {
			insts = x.rootC.Instances[fc.Name]
		}
		if insts == nil && f.Origin() != nil {
			insts = x.rootC.Instances[fnKey(f.Origin())]
		}
	}
	for _, e := range fc.Ensures {
		if ie := insts[e.Label]; len(ie) > 0 {
			// ground instances of a quantified postcondition, at terms of the function
			// under contract (evaluated in the state right after the call)
			if call, ok := e.E.(*ECall); ok && exprString(call.Fun) == "forall" && len(call.Args) == 3 {
				if id, ok := call.Args[0].(*EIdent); ok {
					if ts, ok := call.Args[1].(*EString); ok {
						t := x.prog.resolveType(x.pkgOf(post), ts.V)
						rce := &CEnv{x: x, st: bc.st, old: x.rootEntry, vars: x.rootVars, lets: x.rootLets, pkg: fnPkg(x.root), guard: bc.reach, fc: x.rootC}
						for _, ex := range ie {
							v := x.coerce(x.eval(rce, ex), t)
							x.assume(bc.reach, x.evalBool(post.withBound(id.Name, v), &Clause{E: call.Args[2], Text: e.Text, File: e.File, Line: e.Line}))
						}
					}
				}
			}
		}
		if only != nil && !only[e.Label] {
			// not in the default selection: still assumed (and tagged) when some
			// postcondition of the function under contract asks for it by name
			wanted := false
			if x.rootC != nil {
				for _, m := range x.rootC.UseEnsuresAt {
					for cn, labs := range m {
						if (cn == name || cn == fc.Name || (f.Origin() != nil && cn == fnKey(f.Origin()))) && labs[e.Label] {
							wanted = true
						}
					}
				}
			}
			if !wanted {
				continue
			}
		}
		x.assume(bc.reach, x.evalBool(post, e))
		if e.Label != "" && x.rootC != nil && (x.rootC.UseEnsuresAt != nil || x.rootC.UseEnsures != nil) && len(x.hyps) > 0 {
			if x.hypTag == nil {
				x.hypTag = map[int][2]string{}
			}
			x.hypTag[x.hyps[len(x.hyps)-1].ID] = [2]string{fc.Name, e.Label}
		}
	}
	if len(fc.Ensures) > 0 && x.spec == 0 && x.dry == 0 && x.callCovers < 8 {
		// vacuity guard: the path must still be feasible after the callee's
		// postconditions were assumed (a contradictory postcondition would make
		// everything after the call verify)
		x.callCovers++
		x.covers = append(x.covers, &Obligation{Name: fmt.Sprintf("cover:before-call(%s)#%d", shortFn(name), x.callCovers), Kind: "cover", Guard: bc.reach, Goal: x.b.False, NHyps: nhBefore,
			Text: "the call site is reachable", Soft: true})
		x.covers = append(x.covers, &Obligation{Name: fmt.Sprintf("cover:after-call(%s)#%d", shortFn(name), x.callCovers), Kind: "cover", Guard: bc.reach, Goal: x.b.False, NHyps: len(x.hyps),
			Text: "the path stays feasible after assuming the postconditions of " + name, Soft: true})
	}
	if only != nil {
		x.note("only the postconditions " + strings.Join(sortedKeys(only), ", ") + " of " + name + " are used here (useensures)")
	}
	return res
}

func sortedKeys(m map[string]bool) []string {
	var ks []string
	for k := range m {
		ks = append(ks, k)
	}
	sort.Strings(ks)
	return ks
}

func (x *Exec) havocResult(bc *blockCtx, sig *types.Signature, name string) *Val {
	res := sig.Results()
	switch res.Len() {
	case 0:
		return nil
	case 1:
		return x.havoc(res.At(0).Type(), "ret_"+shortFn(name), bc.reach)
	}
	return x.havoc(res, "ret_"+shortFn(name), bc.reach)
}

func (x *Exec) bindResults(ce *CEnv, sig *types.Signature, res *Val) {
	if res == nil {
		return
	}
	ce.vars["result"] = res
	rs := sig.Results()
	if rs.Len() == 1 {
		if n := rs.At(0).Name(); n != "" && n != "_" {
			ce.vars[n] = res
		}
		return
	}
	for i := 0; i < rs.Len(); i++ {
		if n := rs.At(i).Name(); n != "" && n != "_" {
			ce.vars[n] = res.Tup[i]
		}
	}
}

// invoke models an interface method call.
func (x *Exec) invoke(bc *blockCtx, in ssa.Instruction, recv *Val, m *types.Func, args []*Val, resT *types.Tuple) *Val {
	saved := x.curArgs
	x.curArgs = args
	defer func() { x.curArgs = saved }()
	if f, rv := x.devirt(recv, m.Name()); f != nil {
		return x.callStatic(bc, in, f, nil, append([]*Val{rv}, args...))
	}
	key := normalizeFuncName(m.FullName())
	x.atCallObligations(bc, in, key, append([]*Val{recv}, args...))
	x.closureArgEffects(bc, args, key)
	ic, mc := x.prog.ifaceMethod(m)
	pure := ic != nil && ic.isPureMethod(m.Name())
	rt := x.asTerm(recv)
	x.check(bc, "safe:nil", in, x.b.Not(x.b.Eq(x.b.App("i_tag", "Int", rt), x.b.Int(0))))
	var res *Val
	pre := bc.st
	if pure {
		res = x.pureInvoke(key, rt, m, args, resT)
		if res != nil && res.T != nil {
			x.rangeFacts(res.T, res.Typ, bc.reach, 1)
		}
		if mc != nil && mc.Assigns != "" && mc.Assigns != "nothing" {
			// deterministic result, but declared effects on ghost / heap state
			pre = bc.st.clone()
			for _, k := range strings.Fields(strings.ReplaceAll(mc.Assigns, ",", " ")) {
				x.registerGhost(k)
				hk := x.resolveHeapName(&CEnv{x: x, st: bc.st, pkg: x.prog.pkgOfFile(mc.File)}, k)
				bc.st.heaps[hk] = x.b.Fresh(hk+"_after_"+shortFn(key), x.heapSorts[hk])
			}
		}
	} else if mc != nil && mc.Assigns != "" {
		// declared effects only
		sig := m.Type().(*types.Signature)
		pre = bc.st.clone()
		for _, k := range strings.Fields(strings.ReplaceAll(mc.Assigns, ",", " ")) {
			x.registerGhost(k)
			hk := x.resolveHeapName(&CEnv{x: x, st: bc.st, pkg: x.prog.pkgOfFile(mc.File)}, k)
			bc.st.heaps[hk] = x.b.Fresh(hk+"_after_"+shortFn(key), x.heapSorts[hk])
		}
		res = x.havocCall(bc, sig, key, false)
		x.note("interface method with a trusted effect contract: " + key)
	} else {
		x.note("interface method treated as havoc (not declared pure): " + key)
		sig := m.Type().(*types.Signature)
		pre = bc.st.clone()
		res = x.havocCall(bc, sig, key, true)
	}
	if mc != nil {
		// ground instance of the method contract at this call site (the
		// quantified axiom covers applications inside specifications)
		vars := map[string]*Val{"self": recv}
		sig := m.Type().(*types.Signature)
		for i := 0; i < sig.Params().Len(); i++ {
			vars[sig.Params().At(i).Name()] = args[i]
		}
		ce := &CEnv{x: x, st: bc.st, old: pre, vars: vars, guard: bc.reach, fc: mc, pkg: x.prog.pkgOfFile(mc.File), hypo: true}
		x.bindResults(ce, sig, res)
		for _, e := range mc.Ensures {
			x.assume(bc.reach, x.evalBool(ce, e))
		}
	}
	return res
}

// pureInvoke builds the uninterpreted application for a pure interface method.
func (x *Exec) pureInvoke(key string, recv *smt.Term, m *types.Func, args []*Val, resT *types.Tuple) *Val {
	sorts := []string{"Iface"}
	terms := []*smt.Term{recv}
	for _, a := range args {
		t := x.asTerm(a)
		sorts = append(sorts, t.Sort)
		terms = append(terms, t)
	}
	mk := func(i int, rt types.Type) *Val {
		name := "m_" + smt.Sanitize(key)
		if resT.Len() > 1 {
			name = fmt.Sprintf("%s_r%d", name, i)
		}
		rs := x.so.SortOf(rt)
		x.declareUF(name, sorts, rs)
		return &Val{Typ: rt, T: x.b.App(name, rs, terms...)}
	}
	x.ifaceAxiom(key, m)
	switch resT.Len() {
	case 0:
		return nil
	case 1:
		return mk(0, resT.At(0).Type())
	}
	r := &Val{Typ: resT}
	for i := 0; i < resT.Len(); i++ {
		r.Tup = append(r.Tup, mk(i, resT.At(i).Type()))
	}
	return r
}

// ifaceAxiom asserts the interface method contract of m once, as a universally
// quantified axiom triggered by applications of the method symbol:
//
//	forall self, params. ensures(self, params, m(self, params))
func (x *Exec) ifaceAxiom(key string, m *types.Func) {
	if x.ufDecl["ifax:"+key] {
		return
	}
	x.ufDecl["ifax:"+key] = true
	if x.rootC == nil || x.rootC.Opts["ifaceaxioms"] == "" {
		return
	}
	_, mc := x.prog.ifaceMethod(m)
	if mc == nil || len(mc.Ensures) == 0 {
		return
	}
	sig := m.Type().(*types.Signature)
	x.qseq++
	self := &Val{Typ: m.Type().(*types.Signature).Recv().Type(), T: x.b.BoundVar(fmt.Sprintf("self!q%d", x.qseq), "Iface")}
	vars := map[string]*Val{"self": self}
	bvs := []*smt.Term{self.T}
	var args []*Val
	for i := 0; i < sig.Params().Len(); i++ {
		p := sig.Params().At(i)
		bv := x.b.BoundVar(fmt.Sprintf("%s!q%d", smt.Sanitize(p.Name()), x.qseq), x.so.SortOf(p.Type()))
		v := &Val{Typ: p.Type(), T: bv}
		vars[p.Name()] = v
		args = append(args, v)
		bvs = append(bvs, bv)
	}
	res := x.pureInvoke(key, self.T, m, args, sig.Results())
	st := newState()
	ce := &CEnv{x: x, st: st, old: st, vars: vars, guard: x.b.True, fc: mc, depth: 1, pkg: x.prog.pkgOfFile(mc.File)}
	x.bindResults(ce, sig, res)
	var pats []*smt.Term
	if res != nil && res.T != nil {
		pats = []*smt.Term{res.T}
	} else if res != nil && len(res.Tup) > 0 {
		pats = []*smt.Term{res.Tup[0].T}
	}
	for _, e := range mc.Ensures {
		if strings.Contains(e.Text, "old(") || strings.Contains(e.Text, "calls(") {
			// effect clauses relate two states; they are only instantiated at call sites
			continue
		}
		body := x.evalBool(ce, e)
		q := x.b.Quant("forall", bvs, body, pats...)
		x.hyps = append(x.hyps, q)
	}
	x.note("interface contract assumed for every implementation of " + key + " (re-established by the combinators under contract)")
}

// callDynamic models a call through a function value.
func (x *Exec) callDynamic(bc *blockCtx, in ssa.Instruction, fv *Val, cc *ssa.CallCommon, args []*Val) *Val {
	saved := x.curArgs
	x.curArgs = args
	defer func() { x.curArgs = saved }()
	ft := x.asTerm(fv)
	if cl, ok := x.closures[ft.ID]; ok {
		return x.callStatic(bc, in, cl.Fn, cl.Binds, args)
	}
	sig := cc.Signature()
	x.check(bc, "safe:nil", in, x.b.Not(x.b.Eq(ft, x.b.Int(0))))
	// contract obligations attached to calls of a function-valued parameter
	if prm, ok := cc.Value.(*ssa.Parameter); ok && bc.fr.fc != nil && x.spec == 0 {
		for i, cl := range bc.fr.fc.OnCall[prm.Name()] {
			vars := map[string]*Val{}
			for k, v := range bc.fr.params {
				vars[k] = v
			}
			for k, a := range args {
				vars[fmt.Sprintf("arg%d", k)] = a
			}
			ce := &CEnv{x: x, fr: bc.fr, st: bc.st, old: bc.fr.entry, vars: vars, lets: bc.fr.lets, guard: bc.reach, fc: bc.fr.fc, env: bc.env}
			lab := fmt.Sprintf("#%d", i)
			if cl.Label != "" {
				lab = ":" + cl.Label
			}
			x.oblige("oncall", fmt.Sprintf("%soncall(%s)%s", bc.fr.prefix, prm.Name(), lab), bc.reach, x.evalBool(ce, cl), posOf(in), cl.Text, false)
		}
	}
	// ghost call counter
	x.heapSorts["G_calls"] = "(Array Int Int)"
	h := x.getHeap(bc.st, "G_calls")
	bc.st.heaps["G_calls"] = x.sto(h, ft, x.b.Add(x.sel(h, ft, "Int"), x.b.Int(1)))
	pure := x.isPureFuncValue(bc.fr, cc.Value)
	defer func() {
		// ghost counters attached to calls of a function-valued parameter
		prm, ok := cc.Value.(*ssa.Parameter)
		if !ok || bc.fr.fc == nil || x.spec > 0 {
			return
		}
		for _, cl := range bc.fr.fc.CountCall[prm.Name()] {
			vars := map[string]*Val{}
			for k, v := range bc.fr.params {
				vars[k] = v
			}
			for k, a := range args {
				vars[fmt.Sprintf("arg%d", k)] = a
			}
			if x.lastCallResult != nil {
				vars["result"] = x.lastCallResult
			}
			ce := &CEnv{x: x, fr: bc.fr, st: bc.st, old: bc.fr.entry, vars: vars, lets: bc.fr.lets, guard: bc.reach, fc: bc.fr.fc, env: bc.env, hypo: true}
			cond := x.eval(ce, cl.E)
			key := "G_" + cl.Label
			x.registerGhost(key)
			bc.st.heaps[key] = x.b.Add(x.getHeap(bc.st, key), x.b.Ite(cond.T, x.b.Int(1), x.b.Int(0)))
		}
	}()
	x.lastCallResult = nil
	if pure {
		res := x.applyFuncValue(ft, sig, args)
		x.lastCallResult = res
		// behaviour assumed of the callback (every closure passed for it is
		// verified against the same clause through its own contract)
		if prm, ok := cc.Value.(*ssa.Parameter); ok && bc.fr.fc != nil {
			for _, cl := range bc.fr.fc.AssumeCB[prm.Name()] {
				vars := map[string]*Val{}
				for k, v := range bc.fr.params {
					vars[k] = v
				}
				for k, a := range args {
					vars[fmt.Sprintf("arg%d", k)] = a
				}
				vars["result"] = res
				ce := &CEnv{x: x, fr: bc.fr, st: bc.st, old: bc.fr.entry, vars: vars, lets: bc.fr.lets, guard: bc.reach, fc: bc.fr.fc, env: bc.env, hypo: true}
				x.assume(bc.reach, x.evalBool(ce, cl))
				x.note("assumed of the callback " + prm.Name() + " of " + fnKey(bc.fr.fn) + ": " + cl.Text)
			}
		}
		return res
	}
	// impure callback: results havoc; heap effects: by default callbacks are
	// assumed not to write memory the function under contract reads (stated).
	x.note("function-valued callbacks are assumed not to modify memory read by the function under contract")
	return x.havocCall(bc, sig, "callback", false)
}

func (x *Exec) isPureFuncValue(fr *Frame, v ssa.Value) bool {
	// all function values are treated as pure functions of their arguments unless
	// their result list is empty (callbacks).
	var sig *types.Signature
	if s, ok := v.Type().Underlying().(*types.Signature); ok {
		sig = s
	}
	if sig == nil || sig.Results().Len() == 0 {
		return false
	}
	x.note("function values with results are treated as pure functions of their arguments")
	return true
}

// builtin models Go builtins.
func (x *Exec) builtin(bc *blockCtx, in ssa.Instruction, f *ssa.Builtin, cc *ssa.CallCommon, args []*Val) *Val {
	intT := types.Typ[types.Int]
	switch f.Name() {
	case "len":
		a := args[0]
		switch u := a.Typ.Underlying().(type) {
		case *types.Slice:
			return &Val{Typ: intT, T: x.sLen(x.asTerm(a))}
		case *types.Basic:
			return &Val{Typ: intT, T: x.b.App("strlen", "Int", x.asTerm(a))}
		case *types.Array:
			return &Val{Typ: intT, T: x.b.Int(u.Len())}
		case *types.Pointer:
			return &Val{Typ: intT, T: x.b.Int(u.Elem().Underlying().(*types.Array).Len())}
		case *types.Map:
			return &Val{Typ: intT, T: x.mapLen(bc, x.asTerm(a))}
		}
	case "cap":
		a := args[0]
		switch u := a.Typ.Underlying().(type) {
		case *types.Slice:
			return &Val{Typ: intT, T: x.sCap(x.asTerm(a))}
		case *types.Array:
			return &Val{Typ: intT, T: x.b.Int(u.Len())}
		}
	case "append":
		return x.appendOp(bc, in, args)
	case "copy":
		return x.copyOp(bc, args)
	case "delete":
		x.mapDelete(bc, args[0], args[1])
		return nil
	case "min", "max":
		acc := args[0]
		for _, o := range args[1:] {
			var c *smt.Term
			if isFloat(acc.Typ) {
				if x.fp {
					panic(unsupported("builtin min/max on floats in fp mode"))
				}
				c = x.fCmp("<", x.asTerm(o), x.asTerm(acc))
			} else {
				c = x.b.Cmp("<", x.asTerm(o), x.asTerm(acc))
			}
			if f.Name() == "max" {
				c = x.b.Not(c)
			}
			acc = &Val{Typ: acc.Typ, T: x.b.Ite(c, x.asTerm(o), x.asTerm(acc))}
		}
		return acc
	case "print", "println", "close":
		return nil
	case "ssa:wrapnilchk":
		return args[0]
	}
	panic(unsupported("builtin " + f.Name()))
}

func (x *Exec) appendOp(bc *blockCtx, in ssa.Instruction, args []*Val) *Val {
	s := x.asTerm(args[0])
	st := args[0].Typ.Underlying().(*types.Slice)
	et := st.Elem()
	es := x.so.SortOf(et)
	arrSort := fmt.Sprintf("(Array Int %s)", es)
	key := x.heapKeySlice(et)
	h := x.getHeap(bc.st, key)
	if isString(args[1].Typ) {
		panic(unsupported("append(bytes, string...)"))
	}
	t := x.asTerm(args[1])
	x.note("append is modelled as always allocating a fresh backing array (no aliasing with the old one)")
	ref := x.freshRef("append")
	tl := x.sLen(t)
	newLen := x.b.Add(x.sLen(s), tl)
	var contents *smt.Term
	srcArr := x.sel(h, x.sRef(s), arrSort)
	if off := x.sOff(s); off.IntV != nil && off.IntV.Sign() == 0 {
		contents = srcArr
	} else if l := x.sLen(s); l.IntV != nil && l.IntV.Sign() == 0 {
		contents = x.b.App(fmt.Sprintf("(as const %s)", arrSort), arrSort, x.zeroTerm(et))
	} else {
		contents = x.b.Fresh("appendbase", arrSort)
		i := x.b.BoundVar("ai", "Int")
		x.assume(bc.reach, x.b.Quant("forall", []*smt.Term{i},
			x.b.Implies(x.b.And(x.b.Cmp("<=", x.b.Int(0), i), x.b.Cmp("<", i, x.sLen(s))),
				x.b.Eq(x.sel(contents, i, es), x.rdSlice(srcArr, x.sOff(s), i, es)))))
	}
	if tl.IntV != nil && tl.IntV.IsInt64() && tl.IntV.Int64() <= 8 {
		tArr := x.sel(h, x.sRef(t), arrSort)
		for k := int64(0); k < tl.IntV.Int64(); k++ {
			contents = x.sto(contents, x.b.Add(x.sLen(s), x.b.Int(k)), x.sel(tArr, x.b.Add(x.sOff(t), x.b.Int(k)), es))
		}
	} else {
		base := contents
		contents = x.b.Fresh("appended", arrSort)
		tArr := x.sel(h, x.sRef(t), arrSort)
		i := x.b.BoundVar("ai", "Int")
		x.assume(bc.reach, x.b.Quant("forall", []*smt.Term{i},
			x.b.Implies(x.b.And(x.b.Cmp("<=", x.b.Int(0), i), x.b.Cmp("<", i, x.sLen(s))),
				x.b.Eq(x.sel(contents, i, es), x.sel(base, i, es)))))
		x.assume(bc.reach, x.b.Quant("forall", []*smt.Term{i},
			x.b.Implies(x.b.And(x.b.Cmp("<=", x.b.Int(0), i), x.b.Cmp("<", i, tl)),
				x.b.Eq(x.sel(contents, x.b.Add(x.sLen(s), i), es), x.sel(tArr, x.b.Add(x.sOff(t), i), es)))))
	}
	bc.st.heaps[key] = x.sto(h, ref, contents)
	cp := x.b.Fresh("appendcap", "Int")
	x.assume(bc.reach, x.b.Cmp(">=", cp, newLen))
	return &Val{Typ: args[0].Typ, T: x.mkSlice(ref, x.b.Int(0), newLen, cp)}
}

func (x *Exec) copyOp(bc *blockCtx, args []*Val) *Val {
	dst := x.asTerm(args[0])
	if isString(args[1].Typ) {
		panic(unsupported("copy from string"))
	}
	src := x.asTerm(args[1])
	et := args[0].Typ.Underlying().(*types.Slice).Elem()
	es := x.so.SortOf(et)
	arrSort := fmt.Sprintf("(Array Int %s)", es)
	key := x.heapKeySlice(et)
	h := x.getHeap(bc.st, key)
	n := x.b.Ite(x.b.Cmp("<", x.sLen(dst), x.sLen(src)), x.sLen(dst), x.sLen(src))
	old := x.sel(h, x.sRef(dst), arrSort)
	srcArr := x.sel(h, x.sRef(src), arrSort)
	if n.IntV != nil && n.IntV.IsInt64() && n.IntV.Int64() <= 16 && x.sOff(dst).IntV != nil && x.sOff(src).IntV != nil {
		// small constant copy: explicit element stores (memmove semantics: all
		// source elements are read before any is written)
		nwc := old
		do, so := x.sOff(dst).IntV.Int64(), x.sOff(src).IntV.Int64()
		for k := int64(0); k < n.IntV.Int64(); k++ {
			nwc = x.sto(nwc, x.b.Int(do+k), x.sel(srcArr, x.b.Int(so+k), es))
		}
		bc.st.heaps[key] = x.sto(h, x.sRef(dst), nwc)
		x.copyWriteThrough(bc, dst, nwc, key, es, arrSort)
		return &Val{Typ: types.Typ[types.Int], T: n}
	}
	nw := x.b.Fresh("copied", arrSort)
	i := x.b.BoundVar("ci", "Int")
	inRange := x.b.And(x.b.Cmp("<=", x.sOff(dst), i), x.b.Cmp("<", i, x.b.Add(x.sOff(dst), n)))
	x.assume(bc.reach, x.b.Quant("forall", []*smt.Term{i},
		x.b.Eq(x.sel(nw, i, es), x.b.Ite(inRange, x.sel(srcArr, x.b.Add(x.sOff(src), x.b.Sub(i, x.sOff(dst))), es), x.sel(old, i, es)))))
	bc.st.heaps[key] = x.sto(h, x.sRef(dst), nw)
	x.copyWriteThrough(bc, dst, nw, key, es, arrSort)
	return &Val{Typ: types.Typ[types.Int], T: n}
}

// copyWriteThrough: a copy into a view of a struct-embedded array is written through.
func (x *Exec) copyWriteThrough(bc *blockCtx, dst, nw *smt.Term, key, es, arrSort string) {
	if len(x.views) > 0 {
		dr := x.sRef(dst)
		v, isView := x.views[dr.ID]
		if !isView && !(x.freshSet[dr.ID] || x.oldSet[dr.ID]) {
			panic(unsupported("copy into a slice that may be a view of a struct-embedded array"))
		}
		if isView {
			// write the new contents through to the array the view was taken from
			at := v.arrTyp.Underlying().(*types.Array)
			elems := make([]*smt.Term, at.Len())
			for k := range elems {
				elems[k] = x.sel(nw, x.b.Int(int64(k)), es)
			}
			x.storeLoc(bc.st, v.loc, x.mkArray(v.arrTyp, elems))
			// other views of the same array are stale now: their contents become unknown
			for id, o := range x.views {
				if id != dr.ID && sameLoc(o.loc, v.loc) {
					bc.st.heaps[key] = x.sto(x.getHeap(bc.st, key), o.ref, x.b.Fresh("staleview", arrSort))
				}
			}
		}
	}
}

// ---------------------------------------------------------------------
// maps: Ref into HM_<K>_<V> : (Array Int (Array K (Opt V))), HMlen : (Array Int Int)

func (x *Exec) optSort(vt types.Type) string {
	vs := x.so.SortOf(vt)
	name := "Opt_" + smt.Sanitize(vs)
	x.b.Declare("sort:"+name, fmt.Sprintf("(declare-datatypes ((%s 0)) (((none_%s) (some_%s (val_%s %s)))))", name, name, name, name, vs))
	return name
}

func (x *Exec) mapHeap(mt *types.Map) (key, inner, opt string) {
	ks := x.so.SortOf(mt.Key())
	opt = x.optSort(mt.Elem())
	inner = fmt.Sprintf("(Array %s %s)", ks, opt)
	key = "HM_" + smt.Sanitize(ks) + "_" + smt.Sanitize(x.so.SortOf(mt.Elem()))
	if _, ok := x.heapSorts[key]; !ok {
		x.heapSorts[key] = fmt.Sprintf("(Array Int %s)", inner)
	}
	x.heapSorts["HMlen"] = "(Array Int Int)"
	return
}

func (x *Exec) mapKeyTerm(mt *types.Map, k *Val) *smt.Term {
	if x.fp && containsFloat(mt.Key()) {
		x.note("fp model: map keys compared bitwise except that the engine does not merge +0/-0 (stated)")
	}
	return x.asTerm(k)
}

func (x *Exec) makeMap(bc *blockCtx, i *ssa.MakeMap) *Val {
	mt := i.Type().Underlying().(*types.Map)
	key, inner, opt := x.mapHeap(mt)
	ref := x.freshRef("map")
	empty := x.b.App(fmt.Sprintf("(as const %s)", inner), inner, x.b.App("none_"+opt, opt))
	bc.st.heaps[key] = x.sto(x.getHeap(bc.st, key), ref, empty)
	bc.st.heaps["HMlen"] = x.sto(x.getHeap(bc.st, "HMlen"), ref, x.b.Int(0))
	return &Val{Typ: i.Type(), T: ref}
}

func (x *Exec) mapLen(bc *blockCtx, m *smt.Term) *smt.Term {
	x.heapSorts["HMlen"] = "(Array Int Int)"
	l := x.sel(x.getHeap(bc.st, "HMlen"), m, "Int")
	x.assume(bc.reach, x.b.Cmp(">=", l, x.b.Int(0)))
	return l
}

func (x *Exec) lookup(bc *blockCtx, i *ssa.Lookup) *Val {
	mt, ok := i.X.Type().Underlying().(*types.Map)
	if !ok {
		// string index via Lookup
		v := x.term(bc, i.X)
		idx := x.term(bc, i.Index)
		x.check(bc, "safe:index", i, x.b.And(x.b.Cmp("<=", x.b.Int(0), idx), x.b.Cmp("<", idx, x.b.App("strlen", "Int", v))))
		r := x.b.App("strat", "Int", v, idx)
		x.assume(bc.reach, x.b.And(x.b.Cmp("<=", x.b.Int(0), r), x.b.Cmp("<", r, x.b.Int(256))))
		return &Val{Typ: i.Type(), T: r}
	}
	key, inner, opt := x.mapHeap(mt)
	m := x.term(bc, i.X)
	k := x.mapKeyTerm(mt, x.valueIn(bc.fr, bc.env, i.Index))
	cell := x.sel(x.sel(x.getHeap(bc.st, key), m, inner), k, opt)
	present := x.b.And(x.b.Not(x.b.Eq(m, x.b.Int(0))), x.b.App("(_ is some_"+opt+")", "Bool", cell))
	vs := x.so.SortOf(mt.Elem())
	innerV := x.b.App("val_"+opt, vs, cell)
	x.oldRefFactsDeep(innerV, mt.Elem(), 0)
	val := x.b.Ite(present, innerV, x.zeroTerm(mt.Elem()))
	if i.CommaOk {
		return &Val{Typ: i.Type(), Tup: []*Val{{Typ: mt.Elem(), T: val}, {Typ: types.Typ[types.Bool], T: present}}}
	}
	return &Val{Typ: mt.Elem(), T: val}
}

func (x *Exec) mapUpdate(bc *blockCtx, i *ssa.MapUpdate) {
	mt := i.Map.Type().Underlying().(*types.Map)
	key, inner, opt := x.mapHeap(mt)
	m := x.term(bc, i.Map)
	x.check(bc, "safe:nilmap", i, x.b.Not(x.b.Eq(m, x.b.Int(0))))
	k := x.mapKeyTerm(mt, x.valueIn(bc.fr, bc.env, i.Key))
	v := x.asTerm(x.valueIn(bc.fr, bc.env, i.Value))
	h := x.getHeap(bc.st, key)
	old := x.sel(h, m, inner)
	was := x.b.App("(_ is some_"+opt+")", "Bool", x.sel(old, k, opt))
	bc.st.heaps[key] = x.sto(h, m, x.sto(old, k, x.b.App("some_"+opt, opt, v)))
	hl := x.getHeap(bc.st, "HMlen")
	bc.st.heaps["HMlen"] = x.sto(hl, m, x.b.Add(x.sel(hl, m, "Int"), x.b.Ite(was, x.b.Int(0), x.b.Int(1))))
}

func (x *Exec) mapDelete(bc *blockCtx, mv, kv *Val) {
	mt := mv.Typ.Underlying().(*types.Map)
	key, inner, opt := x.mapHeap(mt)
	m := x.asTerm(mv)
	k := x.mapKeyTerm(mt, kv)
	h := x.getHeap(bc.st, key)
	old := x.sel(h, m, inner)
	was := x.b.App("(_ is some_"+opt+")", "Bool", x.sel(old, k, opt))
	bc.st.heaps[key] = x.sto(h, m, x.sto(old, k, x.b.App("none_"+opt, opt)))
	hl := x.getHeap(bc.st, "HMlen")
	bc.st.heaps["HMlen"] = x.sto(hl, m, x.b.Sub(x.sel(hl, m, "Int"), x.b.Ite(was, x.b.Int(1), x.b.Int(0))))
}

// range over map / string: abstract iteration (any order, any subset).
type rangeState struct {
	mt  *types.Map
	m   *smt.Term
	str bool
}

func (x *Exec) rangeInit(bc *blockCtx, i *ssa.Range) *Val {
	v := &Val{Typ: i.Type(), T: x.term(bc, i.X)}
	x.rangeOf[i] = i.X.Type()
	if mt, ok := i.X.Type().Underlying().(*types.Map); ok {
		// ghost set of the keys already yielded by this iteration
		key := x.visitKey(i, mt)
		ks := x.so.SortOf(mt.Key())
		as := fmt.Sprintf("(Array %s Bool)", ks)
		bc.st.heaps[key] = x.b.App(fmt.Sprintf("(as const %s)", as), as, x.b.False)
		x.heapSorts[key+"_n"] = "Int"
		bc.st.heaps[key+"_n"] = x.b.Int(0)
	}
	return v
}

// visitKey names the ghost "visited" set of a map iteration.
func (x *Exec) visitKey(i *ssa.Range, mt *types.Map) string {
	if x.rangeIDs == nil {
		x.rangeIDs = map[*ssa.Range]int{}
	}
	id, ok := x.rangeIDs[i]
	if !ok {
		id = len(x.rangeIDs) + 1
		x.rangeIDs[i] = id
	}
	key := fmt.Sprintf("G_visit_%d", id)
	if _, ok := x.heapSorts[key]; !ok {
		x.heapSorts[key] = fmt.Sprintf("(Array %s Bool)", x.so.SortOf(mt.Key()))
	}
	return key
}

func (x *Exec) rangeNext(bc *blockCtx, i *ssa.Next) *Val {
	boolT := types.Typ[types.Bool]
	ok := x.b.Fresh("range_ok", "Bool")
	tup := i.Type().(*types.Tuple)
	if i.IsString {
		x.note("range over string: abstract iteration (any runes)")
		k := x.havoc(types.Typ[types.Int], "range_idx", bc.reach)
		r := x.havoc(types.Typ[types.Rune], "range_rune", bc.reach)
		return &Val{Typ: tup, Tup: []*Val{{Typ: boolT, T: ok}, k, r}}
	}
	it := i.Iter.(*ssa.Range)
	mt := it.X.Type().Underlying().(*types.Map)
	x.note("range over map: any order; every yielded key is present and not yielded before; the iteration ends only when every present key has been yielded (the map is assumed not to be modified by the loop body)")
	key, inner, opt := x.mapHeap(mt)
	m := x.term(bc, it.X)
	k := x.havoc(mt.Key(), "range_key", bc.reach)
	cell := x.sel(x.sel(x.getHeap(bc.st, key), m, inner), k.T, opt)
	x.assume(bc.reach, x.b.Implies(ok, x.b.App("(_ is some_"+opt+")", "Bool", cell)))
	{
		vk := x.visitKey(it, mt)
		vis := x.getHeap(bc.st, vk)
		x.assume(bc.reach, x.b.Implies(ok, x.b.Not(x.sel(vis, k.T, "Bool"))))
		x.qseq++
		bv := x.b.BoundVar(fmt.Sprintf("rk!q%d", x.qseq), x.so.SortOf(mt.Key()))
		pres := x.b.App("(_ is some_"+opt+")", "Bool", x.sel(x.sel(x.getHeap(bc.st, key), m, inner), bv, opt))
		x.assume(bc.reach, x.b.Implies(x.b.Not(ok), x.b.Quant("forall", []*smt.Term{bv}, x.b.Implies(pres, x.sel(vis, bv, "Bool")))))
		bc.st.heaps[vk] = x.b.Ite(ok, x.sto(vis, k.T, x.b.True), vis)
		// the number of yielded entries: ends at len(map)
		x.heapSorts[vk+"_n"] = "Int"
		n := x.getHeap(bc.st, vk+"_n")
		x.heapSorts["HMlen"] = "(Array Int Int)"
		ml := x.sel(x.getHeap(bc.st, "HMlen"), m, "Int")
		x.assume(bc.reach, x.b.Implies(ok, x.b.Cmp("<", n, ml)))
		x.assume(bc.reach, x.b.Implies(x.b.Not(ok), x.b.Eq(n, ml)))
		bc.st.heaps[vk+"_n"] = x.b.Ite(ok, x.b.Add(n, x.b.Int(1)), n)
	}
	vs := x.so.SortOf(mt.Elem())
	v := &Val{Typ: mt.Elem(), T: x.b.App("val_"+opt, vs, cell)}
	return &Val{Typ: tup, Tup: []*Val{{Typ: boolT, T: ok}, k, v}}
}

// defers: only recorded; RunDefers executes them by havoc of named results.
func (x *Exec) deferCall(bc *blockCtx, i *ssa.Defer) {
	bc.fr.defers = append(bc.fr.defers, i)
	x.note("defer is modelled as having no effect on the checked obligations (it may rewrite a returned error)")
}

func (x *Exec) runDefers(bc *blockCtx) {}

// math models ------------------------------------------------------------

func (x *Exec) realLit(f float64) *smt.Term {
	r := new(big.Rat)
	r.SetFloat64(f)
	return x.b.Real(r)
}

// resolveHeapName maps an assigns entry to a heap key: "H(T)" pointer cells of
// type T, "HS(T)" slice backing of element type T, or a raw key.
func (x *Exec) resolveHeapName(ce *CEnv, s string) string {
	if strings.HasPrefix(s, "HS(") && strings.HasSuffix(s, ")") {
		t := x.prog.resolveType(x.pkgOf(ce), s[3:len(s)-1])
		if t == nil {
			t = x.typeParamByName(s[3 : len(s)-1])
		}
		if t == nil {
			cfail("assigns: cannot resolve type in %s", s)
		}
		return x.heapKeySlice(t)
	}
	if strings.HasPrefix(s, "H(") && strings.HasSuffix(s, ")") {
		t := x.prog.resolveType(x.pkgOf(ce), s[2:len(s)-1])
		if t == nil {
			t = x.typeParamByName(s[2 : len(s)-1])
		}
		if t == nil {
			cfail("assigns: cannot resolve type in %s", s)
		}
		return x.heapKeyPtr(t)
	}
	if _, ok := x.heapSorts[s]; !ok {
		cfail("assigns: unknown heap %s", s)
	}
	return s
}

// typeParamByName: a type parameter of the (generic) function under contract, or
// of the function that encloses it when it is a function literal.
func (x *Exec) typeParamByName(name string) types.Type {
	for f := x.root; f != nil; f = f.Parent() {
		g := f
		if g.Origin() != nil {
			g = g.Origin()
		}
		tps := g.TypeParams()
		for i := 0; tps != nil && i < tps.Len(); i++ {
			if tps.At(i).Obj().Name() == name {
				return tps.At(i)
			}
		}
		if sig := g.Signature; sig != nil && sig.Recv() != nil {
			if nt, ok := derefType(sig.Recv().Type()).(*types.Named); ok {
				rtp := nt.TypeArgs()
				for i := 0; rtp != nil && i < rtp.Len(); i++ {
					if tp, ok := rtp.At(i).(*types.TypeParam); ok && tp.Obj().Name() == name {
						return tp
					}
				}
			}
		}
	}
	return nil
}

func derefType(t types.Type) types.Type {
	if p, ok := t.(*types.Pointer); ok {
		return p.Elem()
	}
	return t
}

// applyFuncValue: the uninterpreted application of a (pure) function value.
func (x *Exec) applyFuncValue(ft *smt.Term, sig *types.Signature, args []*Val) *Val {
	sorts := []string{"Int"}
	terms := []*smt.Term{ft}
	for _, a := range args {
		t := x.asTerm(a)
		sorts = append(sorts, t.Sort)
		terms = append(terms, t)
	}
	res := sig.Results()
	sk := smt.Sanitize(strings.Join(sorts[1:], "_"))
	mk := func(i int, rt types.Type) *Val {
		rs := x.so.SortOf(rt)
		name := fmt.Sprintf("apply_%s_to_%s_r%d", sk, smt.Sanitize(rs), i)
		x.declareUF(name, sorts, rs)
		app := x.b.App(name, rs, terms...)
		if rs == "Real" && x.ufDecl["infax"] && !app.Bound {
			// values returned by (pure) functions are finite in the real model
			inf := x.b.Const("math_inf", "Real")
			x.axiom(x.b.And(x.b.Cmp("<", app, inf), x.b.Cmp("<", x.b.Neg(inf), app)))
		}
		return &Val{Typ: rt, T: app}
	}
	switch res.Len() {
	case 0:
		return nil
	case 1:
		return mk(0, res.At(0).Type())
	}
	r := &Val{Typ: res}
	for i := 0; i < res.Len(); i++ {
		r.Tup = append(r.Tup, mk(i, res.At(i).Type()))
	}
	return r
}

// devirt resolves a method call on an interface value whose dynamic type is
// syntactically known (mk_iface with a literal tag).
func (x *Exec) devirt(recv *Val, name string) (*ssa.Function, *Val) {
	if recv.T == nil || recv.T.Op != "mk_iface" || recv.T.Args[0].IntV == nil {
		return nil, nil
	}
	t := x.so.tagTypes[int(recv.T.Args[0].IntV.Int64())]
	if t == nil {
		return nil, nil
	}
	ms := x.prog.SSA.MethodSets.MethodSet(t)
	var sel *types.Selection
	for i := 0; i < ms.Len(); i++ {
		if ms.At(i).Obj().Name() == name {
			sel = ms.At(i)
			break
		}
	}
	if sel == nil {
		return nil, nil
	}
	f := x.prog.SSA.MethodValue(sel)
	if f == nil {
		return nil, nil
	}
	var rv *Val
	if _, isPtr := t.Underlying().(*types.Pointer); isPtr {
		rv = &Val{Typ: t, T: recv.T.Args[1]}
	} else {
		s := x.so.SortOf(t)
		unbox := "unbox_" + smt.Sanitize(s)
		ref := recv.T.Args[1]
		if ref.Op == "box_"+smt.Sanitize(s) && len(ref.Args) == 1 {
			rv = &Val{Typ: t, T: ref.Args[0]}
		} else {
			x.declareUF(unbox, []string{"Int"}, s)
			rv = &Val{Typ: t, T: x.b.App(unbox, s, ref)}
		}
	}
	return f, rv
}

// inlinable: only functions of the repository itself (and a few tiny helper
// packages) are executed in place; everything else needs a contract.
func (x *Exec) inlinable(f *ssa.Function) bool {
	pkg := fnPkg(f)
	if pkg == nil {
		return true // synthetic wrappers, instantiations without package
	}
	path := pkg.Pkg.Path()
	if strings.HasPrefix(path, strings.TrimSuffix(modPrefix, "/")) {
		return true
	}
	switch path {
	case "github.com/unixpickle/essentials":
		switch f.Name() {
		case "MinInt", "MaxInt", "AbsInt", "Round":
			return true
		}
	case "sort":
		return false
	}
	return false
}

// registerGhost declares ghost state: G_calls is the per-function-value call
// counter, every other G_<name> is an integer ghost variable.
func (x *Exec) registerGhost(k string) {
	if strings.HasPrefix(k, "GA_") {
		// ghost array of integers (e.g. a byte stream)
		if _, ok := x.heapSorts[k]; !ok {
			x.heapSorts[k] = "(Array Int Int)"
		}
		return
	}
	if !strings.HasPrefix(k, "G_") {
		return
	}
	if _, ok := x.heapSorts[k]; ok {
		return
	}
	if k == "G_calls" {
		x.heapSorts[k] = "(Array Int Int)"
	} else {
		x.heapSorts[k] = "Int"
	}
}

// assignTarget: one location named in an assigns clause: `*p` (the cell a
// pointer points to) or `s[i]` (one slice element), evaluated in the entry state.
type assignTarget struct {
	key      string
	ref      *smt.Term
	idx      *smt.Term // nil for pointer cells
	elemSort string
	next     *assignTarget // further cells named by the same token (map contents + map length)
}

func (x *Exec) assignLoc(ce *CEnv, tok string) *assignTarget {
	if strings.HasPrefix(tok, "map(") && strings.HasSuffix(tok, ")") {
		// map(e): the contents (and length) of the one map e refers to at entry
		e, err := ParseExpr(tok[4 : len(tok)-1])
		if err != nil {
			cfail("assigns: %v", err)
		}
		v := x.eval(ce, e)
		mt, ok := v.Typ.Underlying().(*types.Map)
		if !ok {
			cfail("assigns: %s is not a map", tok)
		}
		key, inner, _ := x.mapHeap(mt)
		x.heapSorts["HMlen"] = "(Array Int Int)"
		return &assignTarget{key: key, ref: x.asTerm(v), elemSort: inner,
			next: &assignTarget{key: "HMlen", ref: x.asTerm(v), elemSort: "Int"}}
	}
	if strings.HasPrefix(tok, "*") {
		e, err := ParseExpr(tok[1:])
		if err != nil {
			cfail("assigns: %v", err)
		}
		v := x.eval(ce, e)
		pt, ok := v.Typ.Underlying().(*types.Pointer)
		if !ok {
			cfail("assigns: %s is not a pointer", tok[1:])
		}
		return &assignTarget{key: x.heapKeyPtr(pt.Elem()), ref: x.asTerm(v), elemSort: x.so.SortOf(pt.Elem())}
	}
	if strings.HasSuffix(tok, "]") && !strings.HasPrefix(tok, "H") {
		e, err := ParseExpr(tok)
		if err != nil {
			cfail("assigns: %v", err)
		}
		ix, ok := e.(*EIndex)
		if !ok {
			return nil
		}
		sv := x.eval(ce, ix.X)
		st, ok := sv.Typ.Underlying().(*types.Slice)
		if !ok {
			cfail("assigns: %s is not a slice element", tok)
		}
		i := x.coerce(x.eval(ce, ix.I), intT)
		s := x.asTerm(sv)
		return &assignTarget{key: x.heapKeySlice(st.Elem()), ref: x.sRef(s), idx: x.b.Add(x.sOff(s), i.T), elemSort: x.so.SortOf(st.Elem())}
	}
	return nil
}

// lockedCallCheck: a callee that (by its contract) writes memory listed in the
// root contract's `opt lockedwrites` must be called with the lock held.
func (x *Exec) lockedCallCheck(bc *blockCtx, in ssa.Instruction, ce *CEnv, tok, callee string) {
	if x.rootC == nil || x.spec > 0 || x.rootC.Opts["lockedwrites"] == "" || strings.HasPrefix(tok, "G_") || strings.HasPrefix(tok, "GA_") {
		return
	}
	var key string
	if as := x.assignLoc(ce, tok); as != nil {
		key = as.key
	} else {
		key = x.resolveHeapName(ce, tok)
	}
	rce := &CEnv{x: x, fr: bc.fr, st: bc.st, pkg: fnPkg(x.root)}
	for _, t := range strings.Fields(x.rootC.Opts["lockedwrites"]) {
		if x.resolveHeapName(rce, t) == key {
			x.registerGhost("G_locked")
			x.oblige("frame:locked", bc.fr.prefix+"frame:locked-call("+shortFn(callee)+")", bc.reach, x.b.Cmp(">=", x.getHeap(bc.st, "G_locked"), x.b.Int(1)), posOf(in),
				"call that writes memory shared between workers ("+key+") must hold the lock: "+x.prog.srcLine(posOf(in)), false)
		}
	}
}

// closureArgEffects: a function literal passed as an argument may be invoked by
// the callee. Its writes are over-approximated: the captured variables it stores
// to become unknown; if its body writes anything else (through pointers, maps,
// or calls functions without a pure/assigns contract) every heap becomes unknown.
func (x *Exec) closureArgEffects(bc *blockCtx, args []*Val, callee string) {
	for _, a := range args {
		if a == nil || a.Fn == nil || len(a.Fn.Blocks) == 0 {
			continue
		}
		fn := a.Fn
		fvIndex := map[ssa.Value]int{}
		for i, fv := range fn.FreeVars {
			fvIndex[fv] = i
		}
		writesFV := map[int]bool{}
		unknown := false
		ghostKeys := map[string]bool{}
		for _, b := range fn.Blocks {
			for _, in := range b.Instrs {
				switch i := in.(type) {
				case *ssa.Store:
					if k, ok := fvIndex[i.Addr]; ok {
						writesFV[k] = true
					} else if al, ok := i.Addr.(*ssa.Alloc); ok && al.Parent() == fn {
						// local variable of the closure
					} else if fa, ok := i.Addr.(*ssa.FieldAddr); ok {
						if al, ok := fa.X.(*ssa.Alloc); ok && al.Parent() == fn {
							continue
						}
						unknown = true
					} else if ia, ok := i.Addr.(*ssa.IndexAddr); ok {
						if al, ok := ia.X.(*ssa.Alloc); ok && al.Parent() == fn {
							continue
						}
						unknown = true
					} else {
						unknown = true
					}
				case *ssa.MapUpdate, *ssa.Send, *ssa.Go, *ssa.Defer:
					unknown = true
				case *ssa.Call:
					cc := i.Common()
					if _, isB := cc.Value.(*ssa.Builtin); isB {
						if cc.Value.Name() == "delete" || cc.Value.Name() == "copy" {
							unknown = true
						}
						continue
					}
					if cc.IsInvoke() {
						ic, _ := x.prog.ifaceMethod(cc.Method)
						if ic == nil || !ic.isPureMethod(cc.Method.Name()) {
							unknown = true
						}
						continue
					}
					if cf, ok := cc.Value.(*ssa.Function); ok {
						name := fnKey(cf)
						if cf.Origin() != nil {
							if _, ok := x.prog.Contracts.Funcs[name]; !ok {
								name = fnKey(cf.Origin())
							}
						}
						c := x.prog.Contracts.Funcs[name]
						switch {
						case c != nil && c.Pure:
						case c != nil && c.Assigns != "":
							for _, k := range strings.Fields(strings.ReplaceAll(c.Assigns, ",", " ")) {
								if strings.HasPrefix(k, "G_") || strings.HasPrefix(k, "GA_") {
									ghostKeys[k] = true
								} else if strings.HasPrefix(k, "H(") || strings.HasPrefix(k, "HS(") {
									// a whole heap named by type: exactly that heap becomes unknown
									func() {
										defer func() {
											if r := recover(); r != nil {
												unknown = true
											}
										}()
										ghostKeys[x.resolveHeapName(&CEnv{x: x, st: bc.st, pkg: fnPkg(cf)}, k)] = true
									}()
								} else {
									unknown = true
								}
							}
						case isKnownPureLeaf(name):
						default:
							unknown = true
						}
						continue
					}
					// call through a function value: may do anything
					unknown = true
				}
			}
		}
		if unknown {
			for k := range x.heapSorts {
				if k == "G_locked" {
					continue
				}
				old := x.getHeap(bc.st, k)
				bc.st.heaps[k] = x.b.Fresh(k+"_after_closure_"+shortFn(callee), x.heapSorts[k])
				if k == "G_alloc" {
					x.axiom(x.b.Cmp(">=", bc.st.heaps[k], old))
				}
			}
			x.note("a function literal passed to " + callee + " writes memory outside its captured variables: every heap is treated as unknown after the call")
			return
		}
		for k := range ghostKeys {
			x.registerGhost(k)
			bc.st.heaps[k] = x.b.Fresh(k+"_after_closure_"+shortFn(callee), x.heapSorts[k])
		}
		for k := range writesFV {
			if k >= len(a.Binds) {
				continue
			}
			bv := a.Binds[k]
			pt, ok := fn.FreeVars[k].Type().(*types.Pointer)
			if !ok {
				continue
			}
			loc := x.derefLoc(nil, nil, bv)
			x.storeLoc(bc.st, loc, x.b.Fresh("captured_"+fn.FreeVars[k].Name()+"_after_"+shortFn(callee), x.so.SortOf(pt.Elem())))
		}
		if len(writesFV) > 0 {
			x.note("captured variables written by a function literal passed to " + callee + " are unknown after the call")
		}
	}
}

// isKnownPureLeaf: math and value-method helpers that write no memory.
func isKnownPureLeaf(name string) bool {
	return strings.HasPrefix(name, "math.") || strings.HasPrefix(name, "(model3d.Coord3D).") || strings.HasPrefix(name, "(model2d.Coord).") || strings.HasPrefix(name, "model3d.XYZ") || strings.HasPrefix(name, "model2d.XY")
}
