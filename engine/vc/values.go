package vc

import (
	"fmt"
	"go/constant"
	"go/types"
	"math"
	"math/big"
	"strings"

	"verifengine/smt"
)

// ---------------------------------------------------------------------
// navigation inside datatype values

// fieldOf returns field i of struct value v (type t).
func (x *Exec) fieldOf(v *smt.Term, t types.Type, i int) *smt.Term {
	si := x.so.StructInfo(t)
	if v.Op == si.Ctor && len(v.Args) == len(si.Fields) {
		return v.Args[i]
	}
	if v.Op == "ite" {
		key := [2]int{v.ID, i}
		if r, ok := x.projMemo[key]; ok {
			return r
		}
		r := x.b.Ite(v.Args[0], x.fieldOf(v.Args[1], t, i), x.fieldOf(v.Args[2], t, i))
		if x.projMemo == nil {
			x.projMemo = map[[2]int]*smt.Term{}
		}
		x.projMemo[key] = r
		return r
	}
	return x.b.App(si.Fields[i], x.so.SortOf(si.FTypes[i]), v)
}

func (x *Exec) mkStruct(t types.Type, fields []*smt.Term) *smt.Term {
	si := x.so.StructInfo(t)
	if len(fields) == 0 {
		return x.b.App(si.Ctor, si.Sort)
	}
	// eta-reduce mk(f0(v), f1(v), ...) = v
	if fields[0].Op == si.Fields[0] && len(fields[0].Args) == 1 {
		base := fields[0].Args[0]
		same := true
		for i, f := range fields {
			if f.Op != si.Fields[i] || len(f.Args) != 1 || f.Args[0] != base {
				same = false
				break
			}
		}
		if same {
			return base
		}
	}
	return x.b.App(si.Ctor, si.Sort, fields...)
}

func (x *Exec) withField(v *smt.Term, t types.Type, i int, nv *smt.Term) *smt.Term {
	si := x.so.StructInfo(t)
	fs := make([]*smt.Term, len(si.Fields))
	for j := range fs {
		if j == i {
			fs[j] = nv
		} else {
			fs[j] = x.fieldOf(v, t, j)
		}
	}
	return x.mkStruct(t, fs)
}

// elemOf returns element idx of array value v (array type t).
func (x *Exec) elemOf(v *smt.Term, t types.Type, idx *smt.Term) *smt.Term {
	ai := x.so.ArrayInfo(t)
	if ai.Big {
		return x.sel(v, idx, ai.ESort)
	}
	if idx.IntV != nil {
		k := int(idx.IntV.Int64())
		if k < 0 || k >= ai.N {
			// out of range constant: value irrelevant (guarded by bounds check)
			return x.zeroTerm(ai.Elem)
		}
		return x.elemConst(v, ai, k)
	}
	if ai.N == 0 {
		return x.zeroTerm(ai.Elem)
	}
	acc := x.elemConst(v, ai, ai.N-1)
	for k := ai.N - 2; k >= 0; k-- {
		acc = x.b.Ite(x.b.Eq(idx, x.b.Int(int64(k))), x.elemConst(v, ai, k), acc)
	}
	return acc
}

func (x *Exec) elemConst(v *smt.Term, ai *arrayInfo, k int) *smt.Term {
	if v.Op == ai.Ctor && len(v.Args) == ai.N {
		return v.Args[k]
	}
	if v.Op == "ite" {
		key := [2]int{v.ID, 1000 + k}
		if r, ok := x.projMemo[key]; ok {
			return r
		}
		r := x.b.Ite(v.Args[0], x.elemConst(v.Args[1], ai, k), x.elemConst(v.Args[2], ai, k))
		if x.projMemo == nil {
			x.projMemo = map[[2]int]*smt.Term{}
		}
		x.projMemo[key] = r
		return r
	}
	return x.b.App(ai.Sels[k], ai.ESort, v)
}

func (x *Exec) mkArray(t types.Type, elems []*smt.Term) *smt.Term {
	ai := x.so.ArrayInfo(t)
	if ai.Big {
		acc := x.b.App(fmt.Sprintf("(as const %s)", ai.Sort), ai.Sort, x.zeroTerm(ai.Elem))
		for i, e := range elems {
			acc = x.sto(acc, x.b.Int(int64(i)), e)
		}
		return acc
	}
	if ai.N == 0 {
		return x.b.App(ai.Ctor, ai.Sort)
	}
	return x.b.App(ai.Ctor, ai.Sort, elems...)
}

func (x *Exec) withElem(v *smt.Term, t types.Type, idx *smt.Term, f func(old *smt.Term) *smt.Term) *smt.Term {
	ai := x.so.ArrayInfo(t)
	if ai.Big {
		return x.sto(v, idx, f(x.sel(v, idx, ai.ESort)))
	}
	es := make([]*smt.Term, ai.N)
	for k := 0; k < ai.N; k++ {
		old := x.elemConst(v, ai, k)
		if idx.IntV != nil {
			if int(idx.IntV.Int64()) == k {
				es[k] = f(old)
			} else {
				es[k] = old
			}
		} else {
			es[k] = x.b.Ite(x.b.Eq(idx, x.b.Int(int64(k))), f(old), old)
		}
	}
	return x.mkArray(t, es)
}

// navigate reads along a path.
func (x *Exec) navigate(root *smt.Term, path []PathElem) *smt.Term {
	cur := root
	for _, pe := range path {
		if pe.Idx != nil {
			cur = x.elemOf(cur, pe.Typ, pe.Idx)
		} else {
			cur = x.fieldOf(cur, pe.Typ, pe.Field)
		}
	}
	return cur
}

// update writes along a path and returns the new root.
func (x *Exec) update(root *smt.Term, path []PathElem, nv *smt.Term) *smt.Term {
	if len(path) == 0 {
		return nv
	}
	pe := path[0]
	if pe.Idx != nil {
		return x.withElem(root, pe.Typ, pe.Idx, func(old *smt.Term) *smt.Term { return x.update(old, path[1:], nv) })
	}
	old := x.fieldOf(root, pe.Typ, pe.Field)
	return x.withField(root, pe.Typ, pe.Field, x.update(old, path[1:], nv))
}

// loadLoc reads the value at loc in state st.
func (x *Exec) loadLoc(st *State, loc *Loc) *smt.Term {
	return x.navigate(x.rootRead(st, loc), loc.Path)
}

func (x *Exec) rootRead(st *State, loc *Loc) *smt.Term {
	switch {
	case loc.Cell != nil:
		v, ok := st.cells[loc.Cell]
		if !ok {
			panic(unsupported("read of local cell " + loc.Cell.name + " before its Alloc executed"))
		}
		return v
	case loc.Ref != nil:
		key := x.heapKeyPtr(loc.RootTyp)
		return x.sel(x.getHeap(st, key), loc.Ref, x.so.SortOf(loc.RootTyp))
	case loc.SliceR != nil:
		key := x.heapKeySlice(loc.RootTyp)
		es := x.so.SortOf(loc.RootTyp)
		inner := x.sel(x.getHeap(st, key), loc.SliceR, fmt.Sprintf("(Array Int %s)", es))
		return x.rdSlice(inner, loc.SliceO, loc.SliceI, es)
	}
	panic("bad loc")
}

// storeLoc writes nv at loc, mutating st (caller owns st).
func (x *Exec) storeLoc(st *State, loc *Loc, nv *smt.Term) {
	switch {
	case loc.Cell != nil:
		old, ok := st.cells[loc.Cell]
		if !ok {
			panic(unsupported("store to local cell before its Alloc executed"))
		}
		st.cells[loc.Cell] = x.update(old, loc.Path, nv)
	case loc.Ref != nil:
		key := x.heapKeyPtr(loc.RootTyp)
		h := x.getHeap(st, key)
		old := x.sel(h, loc.Ref, x.so.SortOf(loc.RootTyp))
		st.heaps[key] = x.sto(h, loc.Ref, x.update(old, loc.Path, nv))
	case loc.SliceR != nil:
		var view *viewInfo
		if len(x.views) > 0 {
			// an element store through a slice that may alias an array inside a struct
			v, isView := x.views[loc.SliceR.ID]
			if !isView && !(x.freshSet[loc.SliceR.ID] || x.oldSet[loc.SliceR.ID]) {
				panic(unsupported("element store through a slice while views of struct-embedded arrays are live"))
			}
			view = v
		}
		key := x.heapKeySlice(loc.RootTyp)
		es := x.so.SortOf(loc.RootTyp)
		h := x.getHeap(st, key)
		inner := x.sel(h, loc.SliceR, fmt.Sprintf("(Array Int %s)", es))
		old := x.rdSlice(inner, loc.SliceO, loc.SliceI, es)
		abs := loc.SliceI
		if loc.SliceO != nil {
			abs = x.b.Add(loc.SliceO, loc.SliceI)
		}
		nwInner := x.sto(inner, abs, x.update(old, loc.Path, nv))
		st.heaps[key] = x.sto(h, loc.SliceR, nwInner)
		if view != nil {
			// the slice is a view of an array inside a struct (or a local array):
			// the store is a store into that array
			at := view.arrTyp.Underlying().(*types.Array)
			elems := make([]*smt.Term, at.Len())
			for k := range elems {
				elems[k] = x.sel(nwInner, x.b.Int(int64(k)), es)
			}
			x.storeLoc(st, view.loc, x.mkArray(view.arrTyp, elems))
			for id, o := range x.views {
				if id != loc.SliceR.ID && sameLoc(o.loc, view.loc) {
					st.heaps[key] = x.sto(x.getHeap(st, key), o.ref, x.b.Fresh("staleview", fmt.Sprintf("(Array Int %s)", es)))
				}
			}
		}
	default:
		panic("bad loc")
	}
}

// ---------------------------------------------------------------------
// zero / havoc / literals

func (x *Exec) zeroTerm(t types.Type) *smt.Term {
	switch u := t.Underlying().(type) {
	case *types.Basic:
		switch {
		case u.Info()&types.IsBoolean != 0:
			return x.b.False
		case u.Info()&types.IsInteger != 0:
			return x.b.Int(0)
		case u.Info()&types.IsFloat != 0:
			return x.floatLit(t, new(big.Rat))
		case u.Info()&types.IsString != 0:
			return x.strLit("")
		default:
			return x.b.Int(0)
		}
	case *types.Pointer, *types.Signature, *types.Map, *types.Chan:
		return x.b.Int(0)
	case *types.Slice:
		z := x.b.Int(0)
		return x.b.App("mk_slice", "Slice", z, z, z, z)
	case *types.Interface:
		z := x.b.Int(0)
		return x.b.App("mk_iface", "Iface", z, z)
	case *types.Struct:
		si := x.so.StructInfo(t)
		fs := make([]*smt.Term, len(si.Fields))
		for i := range fs {
			fs[i] = x.zeroTerm(si.FTypes[i])
		}
		return x.mkStruct(t, fs)
	case *types.Array:
		ai := x.so.ArrayInfo(t)
		if ai.Big {
			return x.b.App(fmt.Sprintf("(as const %s)", ai.Sort), ai.Sort, x.zeroTerm(ai.Elem))
		}
		es := make([]*smt.Term, ai.N)
		for i := range es {
			es[i] = x.zeroTerm(ai.Elem)
		}
		return x.mkArray(t, es)
	case *types.TypeParam:
		return x.b.Const("zero_"+x.so.SortOf(t), x.so.SortOf(t))
	}
	panic(unsupported("zero value of " + t.String()))
}

func (x *Exec) strLit(s string) *smt.Term {
	if t, ok := x.strLits[s]; ok {
		return t
	}
	c := x.b.Const(fmt.Sprintf("strlit_%d", len(x.strLits)), "Str")
	x.strLits[s] = c
	x.axiom(x.b.Eq(x.b.App("strlen", "Int", c), x.b.Int(int64(len(s)))))
	if len(s) <= 8 {
		for i := 0; i < len(s); i++ {
			x.axiom(x.b.Eq(x.b.App("strat", "Int", c, x.b.Int(int64(i))), x.b.Int(int64(s[i]))))
		}
	}
	// distinct literals are distinct values
	for o, t := range x.strLits {
		if o != s {
			x.axiom(x.b.Not(x.b.Eq(c, t)))
		}
	}
	return c
}

// floatLit makes a float literal of Go type t from an exact rational (which must
// be exactly representable when in fp mode; otherwise it is rounded RNE).
func (x *Exec) floatLit(t types.Type, r *big.Rat) *smt.Term {
	if !x.fp {
		return x.b.Real(r)
	}
	f, _ := r.Float64()
	return x.fpLit64(t, f)
}

func (x *Exec) fpLit64(t types.Type, f float64) *smt.Term {
	sort := x.so.FloatSort(t)
	if sort == "(_ FloatingPoint 8 24)" {
		bits := math.Float32bits(float32(f))
		lit := fmt.Sprintf("(fp #b%01b #b%08b #b%023b)", bits>>31, (bits>>23)&0xff, bits&0x7fffff)
		return x.b.Raw(lit, sort)
	}
	bits := math.Float64bits(f)
	lit := fmt.Sprintf("(fp #b%01b #b%011b #b%052b)", bits>>63, (bits>>52)&0x7ff, bits&((1<<52)-1))
	return x.b.Raw(lit, sort)
}

// constVal converts a Go constant to a value of type t.
func (x *Exec) constVal(t types.Type, c constant.Value) *Val {
	if c == nil {
		return &Val{Typ: t, T: x.zeroTerm(t)}
	}
	switch u := t.Underlying().(type) {
	case *types.Basic:
		switch {
		case u.Info()&types.IsBoolean != 0:
			return &Val{Typ: t, T: x.b.Bool(constant.BoolVal(c))}
		case u.Info()&types.IsInteger != 0:
			iv := constant.ToInt(c)
			bi, ok := new(big.Int).SetString(iv.ExactString(), 10)
			if !ok {
				panic(unsupported("integer constant " + c.ExactString()))
			}
			return &Val{Typ: t, T: x.b.IntBig(bi)}
		case u.Info()&types.IsFloat != 0:
			if x.fp {
				f, _ := constant.Float64Val(constant.ToFloat(c))
				return &Val{Typ: t, T: x.fpLit64(t, f)}
			}
			// real mode: use the float64 value the compiler would store, exactly.
			f, _ := constant.Float64Val(constant.ToFloat(c))
			if u.Kind() == types.Float32 {
				f = float64(float32(f))
			}
			r := new(big.Rat)
			if math.IsInf(f, 0) || math.IsNaN(f) {
				panic(unsupported("non-finite float constant"))
			}
			r.SetFloat64(f)
			return &Val{Typ: t, T: x.b.Real(r)}
		case u.Info()&types.IsString != 0:
			return &Val{Typ: t, T: x.strLit(constant.StringVal(c))}
		}
	}
	panic(unsupported("constant of type " + t.String()))
}

// havoc returns a fresh unconstrained value of type t (with range facts).
func (x *Exec) havoc(t types.Type, name string, guard *smt.Term) *Val {
	if tup, ok := t.(*types.Tuple); ok {
		r := &Val{Typ: t}
		for i := 0; i < tup.Len(); i++ {
			r.Tup = append(r.Tup, x.havoc(tup.At(i).Type(), fmt.Sprintf("%s_%d", name, i), guard))
		}
		return r
	}
	c := x.b.Fresh(name, x.so.SortOf(t))
	x.rangeFacts(c, t, guard, 2)
	return &Val{Typ: t, T: c}
}

// rangeFacts adds type-range hypotheses about term c of type t.
func (x *Exec) rangeFacts(c *smt.Term, t types.Type, guard *smt.Term, depth int) {
	switch u := t.Underlying().(type) {
	case *types.Basic:
		if u.Info()&types.IsInteger != 0 {
			lo, hi, _, signed, narrow := intRange(t)
			if narrow {
				x.assume(guard, x.b.And(x.b.Cmp("<=", x.b.IntBig(lo), c), x.b.Cmp("<=", c, x.b.IntBig(hi))))
			} else if !signed {
				x.assume(guard, x.b.Cmp("<=", x.b.Int(0), c))
			}
		}
		if u.Info()&types.IsString != 0 {
			x.assume(guard, x.b.Cmp("<=", x.b.Int(0), x.b.App("strlen", "Int", c)))
		}
	case *types.Slice:
		ln := x.b.App("s_len", "Int", c)
		x.assume(guard, x.b.And(x.b.Cmp("<=", x.b.Int(0), ln), x.b.Cmp("<=", ln, x.b.App("s_cap", "Int", c)),
			x.b.Cmp("<=", x.b.Int(0), x.b.App("s_off", "Int", c))))
	case *types.Struct:
		if depth <= 0 {
			return
		}
		si := x.so.StructInfo(t)
		for i := range si.Fields {
			switch si.FTypes[i].Underlying().(type) {
			case *types.Basic, *types.Slice, *types.Struct, *types.Array:
				x.rangeFacts(x.fieldOf(c, t, i), si.FTypes[i], guard, depth-1)
			}
		}
	case *types.Array:
		if depth <= 0 {
			return
		}
		ai := x.so.ArrayInfo(t)
		if ai.Big || ai.N > 4 {
			return
		}
		for k := 0; k < ai.N; k++ {
			x.rangeFacts(x.elemConst(c, ai, k), ai.Elem, guard, depth-1)
		}
	}
}

// ---------------------------------------------------------------------
// float operations in the current numeric model

func isFloat(t types.Type) bool {
	bt, ok := t.Underlying().(*types.Basic)
	return ok && bt.Info()&types.IsFloat != 0
}
func isInteger(t types.Type) bool {
	bt, ok := t.Underlying().(*types.Basic)
	return ok && bt.Info()&types.IsInteger != 0
}
func isBool(t types.Type) bool {
	bt, ok := t.Underlying().(*types.Basic)
	return ok && bt.Info()&types.IsBoolean != 0
}
func isString(t types.Type) bool {
	bt, ok := t.Underlying().(*types.Basic)
	return ok && bt.Info()&types.IsString != 0
}

func (x *Exec) fArith(op string, a, c *smt.Term) *smt.Term {
	if !x.fp {
		switch op {
		case "+":
			return x.b.Add(a, c)
		case "-":
			return x.b.Sub(a, c)
		case "*":
			return x.b.Mul(a, c)
		case "/":
			return x.realDiv(a, c)
		}
		panic("bad float op " + op)
	}
	m := map[string]string{"+": "fp.add", "-": "fp.sub", "*": "fp.mul", "/": "fp.div"}[op]
	return x.b.App(m, a.Sort, x.b.Raw("RNE", "RoundingMode"), a, c)
}

func (x *Exec) fNeg(a *smt.Term) *smt.Term {
	if !x.fp {
		return x.b.Neg(a)
	}
	return x.b.App("fp.neg", a.Sort, a)
}

func (x *Exec) fCmp(op string, a, c *smt.Term) *smt.Term {
	if !x.fp {
		x.infFacts(a, c)
		x.infFacts(c, a)
		switch op {
		case "==":
			return x.b.Eq(a, c)
		case "!=":
			return x.b.Not(x.b.Eq(a, c))
		}
		return x.b.Cmp(op, a, c)
	}
	switch op {
	case "==":
		return x.b.App("fp.eq", "Bool", a, c)
	case "!=":
		return x.b.Not(x.b.App("fp.eq", "Bool", a, c))
	case "<":
		return x.b.App("fp.lt", "Bool", a, c)
	case "<=":
		return x.b.App("fp.leq", "Bool", a, c)
	case ">":
		return x.b.App("fp.gt", "Bool", a, c)
	case ">=":
		return x.b.App("fp.geq", "Bool", a, c)
	}
	panic("bad float cmp " + op)
}

func (x *Exec) fIsNaN(a *smt.Term) *smt.Term {
	if !x.fp {
		return x.b.False
	}
	return x.b.App("fp.isNaN", "Bool", a)
}

func (x *Exec) fIsInf(a *smt.Term) *smt.Term {
	if !x.fp {
		return x.b.False
	}
	return x.b.App("fp.isInfinite", "Bool", a)
}

// goEq builds Go's == on two values of type t.
func (x *Exec) goEq(t types.Type, a, c *smt.Term) *smt.Term {
	switch u := t.Underlying().(type) {
	case *types.Basic:
		if u.Info()&types.IsFloat != 0 {
			return x.fCmp("==", a, c)
		}
		// bit patterns of two floats are equal iff the floats are structurally
		// equal (the bit functions are injective: they have an inverse)
		if (a.Op == "f64bits" || a.Op == "f32bits") && a.Op == c.Op && len(a.Args) == 1 && len(c.Args) == 1 {
			return x.b.Eq(a.Args[0], c.Args[0])
		}
		return x.b.Eq(a, c)
	case *types.Struct:
		si := x.so.StructInfo(t)
		if len(si.Fields) == 0 || len(si.Fields) > 12 {
			return x.b.Eq(a, c)
		}
		if !x.fp && structLeaves(t, 0) > 3 {
			// real model: equality of reals is structural, so a large record is
			// compared as one datatype value (keeps array/quantifier goals small)
			return x.b.Eq(a, c)
		}
		var cs []*smt.Term
		for i := range si.Fields {
			cs = append(cs, x.goEq(si.FTypes[i], x.fieldOf(a, t, i), x.fieldOf(c, t, i)))
		}
		return x.b.And(cs...)
	case *types.Array:
		if !x.fp || !containsFloat(t) {
			return x.b.Eq(a, c)
		}
		ai := x.so.ArrayInfo(t)
		if ai.Big {
			panic(unsupported("== on large float arrays in fp mode"))
		}
		var cs []*smt.Term
		for k := 0; k < ai.N; k++ {
			cs = append(cs, x.goEq(ai.Elem, x.elemConst(a, ai, k), x.elemConst(c, ai, k)))
		}
		return x.b.And(cs...)
	}
	return x.b.Eq(a, c)
}

func containsFloat(t types.Type) bool {
	switch u := t.Underlying().(type) {
	case *types.Basic:
		return u.Info()&types.IsFloat != 0
	case *types.Struct:
		for i := 0; i < u.NumFields(); i++ {
			if containsFloat(u.Field(i).Type()) {
				return true
			}
		}
	case *types.Array:
		return containsFloat(u.Elem())
	}
	return false
}

// wrapInt applies Go's wrap-around for narrow integer types.
func (x *Exec) wrapInt(t types.Type, v *smt.Term) *smt.Term {
	lo, hi, bits, signed, narrow := intRange(t)
	if !narrow {
		return v
	}
	if v.IntV != nil && v.IntV.Cmp(lo) >= 0 && v.IntV.Cmp(hi) <= 0 {
		return v
	}
	mod := new(big.Int).Lsh(big.NewInt(1), uint(bits))
	if !signed {
		return x.b.App("mod", "Int", v, x.b.IntBig(mod))
	}
	half := new(big.Int).Lsh(big.NewInt(1), uint(bits-1))
	return x.b.Sub(x.b.App("mod", "Int", x.b.Add(v, x.b.IntBig(half)), x.b.IntBig(mod)), x.b.IntBig(half))
}

// goDiv / goRem: Go truncated integer division from SMT Euclidean div/mod.
func (x *Exec) goDiv(a, c *smt.Term) *smt.Term {
	if a.IntV != nil && c.IntV != nil && c.IntV.Sign() != 0 {
		return x.b.IntBig(new(big.Int).Quo(a.IntV, c.IntV))
	}
	d := x.b.App("div", "Int", a, c)
	// truncate toward zero: a >= 0: div ; a < 0: -((-a) div c)
	nd := x.b.Neg(x.b.App("div", "Int", x.b.Neg(a), c))
	q := x.b.Ite(x.b.Cmp(">=", a, x.b.Int(0)), d, nd)
	x.divHints(a, c, q)
	return q
}

func (x *Exec) goRem(a, c *smt.Term) *smt.Term {
	if a.IntV != nil && c.IntV != nil && c.IntV.Sign() != 0 {
		return x.b.IntBig(new(big.Int).Rem(a.IntV, c.IntV))
	}
	// a - c * trunc(a/c)
	r := x.b.Sub(a, x.b.Mul(c, x.goDiv(a, c)))
	if rest, ok := x.divRest[[2]int{a.ID, c.ID}]; ok {
		x.divAlias[r.ID] = rest
	}
	return r
}

// rdSlice reads element off+idx of a backing array. A symbolic offset goes
// through the function rd_<sort>, defined by a quantified axiom with a
// syntactic trigger, so that quantified facts over slice elements match
// ground reads without arithmetic in the pattern.
func (x *Exec) rdSlice(arr, off, idx *smt.Term, es string) *smt.Term {
	if off == nil || (off.IntV != nil && off.IntV.Sign() == 0) {
		return x.sel(arr, idx, es)
	}
	if off.IntV != nil && idx.IntV != nil {
		return x.sel(arr, x.b.Add(off, idx), es)
	}
	if arr.Op == "store" && len(arr.Args) == 3 && !idx.Bound {
		// reading a slice element right after an element store: stay in terms of
		// slice indices (rd of the untouched array), which is what invariants and
		// specifications talk about
		p := arr.Args[1]
		if p == x.b.Add(off, idx) {
			return arr.Args[2]
		}
		if p.Op == "+" && len(p.Args) == 2 {
			var j *smt.Term
			if p.Args[0] == off {
				j = p.Args[1]
			} else if p.Args[1] == off {
				j = p.Args[0]
			}
			if j != nil {
				return x.b.Ite(x.b.Eq(j, idx), arr.Args[2], x.rdSlice(arr.Args[0], off, idx, es))
			}
		}
	}
	name := "rd_" + smt.Sanitize(es)
	if !x.ufDecl[name] {
		x.ufDecl[name] = true
		as := fmt.Sprintf("(Array Int %s)", es)
		x.b.Declare("fun:"+name, fmt.Sprintf("(declare-fun %s (%s Int Int) %s)", name, as, es))
		x.b.Declare("ax:"+name, fmt.Sprintf("(assert (forall ((a %s) (o Int) (i Int)) (! (= (%s a o i) (select a (+ o i))) :pattern ((%s a o i)))))", as, name, name))
		// consequence of the definition, stated so that a read after an element
		// store yields a read of the untouched array (the term invariants mention)
		x.b.Declare("ax2:"+name, fmt.Sprintf("(assert (forall ((a %s) (p Int) (v %s) (o Int) (i Int)) (! (= (%s (store a p v) o i) (ite (= p (+ o i)) v (%s a o i))) :pattern ((%s (store a p v) o i)))))", as, es, name, name, name))
	}
	return x.b.App(name, es, arr, off, idx)
}

// realDiv models a/c in the real model as a * recip(c) where recip(c) is a
// constant constrained by c != 0 ==> recip(c)*c = 1 (division by zero yields an
// unconstrained value, i.e. every result is considered possible).
func (x *Exec) realDiv(a, c *smt.Term) *smt.Term {
	if c.RatV != nil && c.RatV.Sign() != 0 {
		if a.RatV != nil {
			return x.b.RDiv(a, c)
		}
		return x.b.Mul(a, x.b.Real(new(big.Rat).Inv(c.RatV)))
	}
	if c.Bound || a.Bound {
		return x.b.RDiv(a, c)
	}
	if x.recips == nil {
		x.recips = map[int]*smt.Term{}
	}
	r, ok := x.recips[c.ID]
	if !ok {
		// 1/c as an application of one uninterpreted function: equal denominators
		// (also when equal only by deduction) give equal reciprocals by congruence
		x.declareUF("recipf", []string{"Real"}, "Real")
		r = x.b.App("recipf", "Real", c)
		x.recips[c.ID] = r
		zero := x.b.Real(new(big.Rat))
		x.axiom(x.b.Implies(x.b.Not(x.b.Eq(c, zero)), x.b.Eq(x.b.Mul(r, c), x.b.Real(big.NewRat(1, 1)))))
	}
	return x.b.Mul(a, r)
}

// infFacts (real model): when one side of a comparison is (or may be, through
// ite) the symbolic +-infinity constant, the other side, if it is not itself
// infinite, lies strictly between -inf and +inf.
func (x *Exec) infFacts(a, other *smt.Term) {
	if !x.ufDecl["infax"] || other.Bound || a.Bound {
		return
	}
	if !x.mentionsInfLeaf(a, 0) || x.mentionsInfLeaf(other, 0) {
		return
	}
	// only for values that cannot be infinite themselves: results of (uninterpreted)
	// function applications, finite inputs, literals and arithmetic over those. A
	// variable havocked by a loop or read from memory may well hold +-Inf (an
	// accumulator initialised with math.Inf): asserting it finite made every state
	// in which it still holds its initial value contradictory (vacuous iterations).
	if !x.knownFinite(other, 0) {
		return
	}
	inf := x.b.Const("math_inf", "Real")
	x.axiom(x.b.And(x.b.Cmp("<", other, inf), x.b.Cmp("<", x.b.Neg(inf), other)))
}

// knownFinite: the term does not depend on anything a loop havocked (a
// loop-carried variable, a local cell or a heap as of a loop head). Inputs,
// memory as of function entry and function results are finite by the stated
// assumption of the real model; a loop accumulator may hold +-Inf.
func (x *Exec) knownFinite(t *smt.Term, depth int) bool {
	seen := map[int]bool{}
	var bad func(u *smt.Term) bool
	bad = func(u *smt.Term) bool {
		if seen[u.ID] {
			return false
		}
		seen[u.ID] = true
		if len(seen) > 4000 {
			return true
		}
		if len(u.Args) == 0 {
			n := u.Op
			if strings.HasPrefix(n, "phi_") || strings.Contains(n, "_loop") || strings.Contains(n, "_dry") {
				return true
			}
			return false
		}
		for _, a := range u.Args {
			if bad(a) {
				return true
			}
		}
		return false
	}
	return !bad(t)
}

func (x *Exec) mentionsInfLeaf(t *smt.Term, depth int) bool {
	if depth > 6 {
		return false
	}
	if t.Op == "math_inf" {
		return true
	}
	if t.Op == "-" && len(t.Args) == 1 {
		return x.mentionsInfLeaf(t.Args[0], depth+1)
	}
	if t.Op == "ite" {
		return x.mentionsInfLeaf(t.Args[1], depth+1) || x.mentionsInfLeaf(t.Args[2], depth+1)
	}
	return false
}

// structLeaves counts the scalar leaves of a (nested) struct type.
func structLeaves(t types.Type, depth int) int {
	st, ok := t.Underlying().(*types.Struct)
	if !ok || depth > 4 {
		return 1
	}
	n := 0
	for i := 0; i < st.NumFields(); i++ {
		n += structLeaves(st.Field(i).Type(), depth+1)
	}
	return n
}
