package vc

import (
	"fmt"
	"strings"
	"go/token"
	"go/types"
	"math/big"

	"golang.org/x/tools/go/ssa"

	"verifengine/smt"
)

// check emits a safety obligation (safety mode) or assumes the condition
// (partial-correctness mode).
func (x *Exec) check(bc *blockCtx, kind string, in ssa.Instruction, cond *smt.Term) {
	if bc.fr.safety {
		x.oblige(kind, bc.fr.prefix+kind, bc.reach, cond, posOf(in), x.prog.srcLine(posOf(in)), false)
	} else {
		x.assume(bc.reach, cond)
	}
}

func (x *Exec) execInstr(bc *blockCtx, in ssa.Instruction) ([]*Edge, bool) {
	fr := bc.fr
	x.curSt = bc.st
	set := func(v ssa.Value, val *Val) { bc.env.vals[v] = val }
	switch i := in.(type) {
	case *ssa.DebugRef:
		return nil, false
	case *ssa.Alloc:
		et := i.Type().(*types.Pointer).Elem()
		if !i.Heap {
			ck := fr.cells[i]
			if ck == nil {
				ck = &cellKey{alloc: i, act: fr.act, name: fmt.Sprintf("%s_%s_a%d", i.Comment, i.Name(), fr.act)}
				fr.cells[i] = ck
			}
			bc.st.cells[ck] = x.zeroTerm(et)
			set(i, &Val{Typ: i.Type(), Loc: &Loc{Cell: ck, RootTyp: et, Typ: et}})
			return nil, false
		}
		if at, ok := et.Underlying().(*types.Array); ok && allocIsSliced(i) {
			// heap array that is sliced: lives in slice backing space
			ref := x.freshRef("arr_" + i.Name())
			key := x.heapKeySlice(at.Elem())
			es := x.so.SortOf(at.Elem())
			h := x.getHeap(bc.st, key)
			zero := x.b.App(fmt.Sprintf("(as const (Array Int %s))", es), fmt.Sprintf("(Array Int %s)", es), x.zeroTerm(at.Elem()))
			bc.st.heaps[key] = x.sto(h, ref, zero)
			set(i, &Val{Typ: i.Type(), Loc: &Loc{SliceR: ref, SliceI: nil, RootTyp: at.Elem(), Typ: et}})
			return nil, false
		}
		ref := x.freshRef("new_" + i.Name())
		key := x.heapKeyPtr(et)
		bc.st.heaps[key] = x.sto(x.getHeap(bc.st, key), ref, x.zeroTerm(et))
		if privateAlloc(i) {
			x.privateRefs = append(x.privateRefs, privateRef{ref: ref, key: key, sort: x.so.SortOf(et), alloc: i})
		}
		set(i, &Val{Typ: i.Type(), Loc: &Loc{Ref: ref, RootTyp: et, Typ: et}})
		return nil, false

	case *ssa.FieldAddr:
		base := x.valueIn(fr, bc.env, i.X)
		loc := x.derefLoc(bc, in, base)
		st := loc.Typ
		ft := st.Underlying().(*types.Struct).Field(i.Field).Type()
		nl := *loc
		nl.Path = append(append([]PathElem{}, loc.Path...), PathElem{Field: i.Field, Typ: st})
		nl.Typ = ft
		set(i, &Val{Typ: i.Type(), Loc: &nl})
		return nil, false

	case *ssa.IndexAddr:
		base := x.valueIn(fr, bc.env, i.X)
		idx := x.term(bc, i.Index)
		switch bt := i.X.Type().Underlying().(type) {
		case *types.Slice:
			s := x.asTerm(base)
			x.check(bc, "safe:index", in, x.b.And(x.b.Cmp("<=", x.b.Int(0), idx), x.b.Cmp("<", idx, x.sLen(s))))
			set(i, &Val{Typ: i.Type(), Loc: &Loc{SliceR: x.sRef(s), SliceO: x.sOff(s), SliceI: idx, RootTyp: bt.Elem(), Typ: bt.Elem()}})
		case *types.Pointer:
			at := bt.Elem().Underlying().(*types.Array)
			x.check(bc, "safe:index", in, x.b.And(x.b.Cmp("<=", x.b.Int(0), idx), x.b.Cmp("<", idx, x.b.Int(at.Len()))))
			if base.Loc != nil && base.Loc.SliceR != nil && base.Loc.SliceI == nil {
				// heap array in slice space
				set(i, &Val{Typ: i.Type(), Loc: &Loc{SliceR: base.Loc.SliceR, SliceI: idx, RootTyp: at.Elem(), Typ: at.Elem()}})
				return nil, false
			}
			loc := x.derefLoc(bc, in, base)
			nl := *loc
			nl.Path = append(append([]PathElem{}, loc.Path...), PathElem{Idx: idx, Typ: loc.Typ})
			nl.Typ = at.Elem()
			set(i, &Val{Typ: i.Type(), Loc: &nl})
		default:
			panic(unsupported("IndexAddr on " + i.X.Type().String()))
		}
		return nil, false

	case *ssa.UnOp:
		switch i.Op {
		case token.MUL: // load
			base := x.valueIn(fr, bc.env, i.X)
			if base.Loc != nil && base.Loc.SliceR != nil && base.Loc.SliceI == nil {
				// load of a whole heap array
				at := base.Loc.Typ.Underlying().(*types.Array)
				es := make([]*smt.Term, at.Len())
				for k := range es {
					l := &Loc{SliceR: base.Loc.SliceR, SliceI: x.b.Int(int64(k)), RootTyp: at.Elem(), Typ: at.Elem()}
					es[k] = x.loadLoc(bc.st, l)
				}
				set(i, &Val{Typ: i.Type(), T: x.mkArray(base.Loc.Typ, es)})
				return nil, false
			}
			loc := x.derefLoc(bc, in, base)
			t := x.loadLoc(bc.st, loc)
			val := &Val{Typ: i.Type(), T: t}
			if loc.Cell == nil && len(t.Args) > 0 && (t.Op == "select" || t.Sort == "Int" || t.Sort == "Slice") {
				x.rangeFacts(t, i.Type(), bc.reach, 1)
			}
			x.oldRefFacts(t, i.Type())
			x.allocFactsDeep(bc, t, i.Type(), 0)
			if g, ok := i.X.(*ssa.Global); ok {
				// trusted facts about package-level variables (e.g. io.EOF is non-nil)
				if gc := x.prog.Contracts.Funcs[normalizeFuncName(g.Pkg.Pkg.Path()+"."+g.Name())]; gc != nil && gc.Kind == "global" {
					ce := &CEnv{x: x, st: bc.st, old: bc.st, vars: map[string]*Val{"value": val}, guard: bc.reach, fc: gc, pkg: g.Pkg}
					for _, e := range gc.Ensures {
						x.assume(bc.reach, x.evalBool(ce, e))
					}
					x.note("trusted fact about global " + g.Pkg.Pkg.Path() + "." + g.Name())
				}
			}
			set(i, val)
		case token.SUB:
			v := x.term(bc, i.X)
			if isFloat(i.Type()) {
				set(i, &Val{Typ: i.Type(), T: x.fNeg(v)})
			} else {
				set(i, &Val{Typ: i.Type(), T: x.wrapInt(i.Type(), x.b.Neg(v))})
			}
		case token.NOT:
			set(i, &Val{Typ: i.Type(), T: x.b.Not(x.term(bc, i.X))})
		case token.XOR:
			v := x.term(bc, i.X)
			// ^x = -x-1 (signed) ; for unsigned: max - x
			lo, hi, _, signed, _ := intRange(i.Type())
			_ = lo
			if signed {
				set(i, &Val{Typ: i.Type(), T: x.b.Sub(x.b.Neg(v), x.b.Int(1))})
			} else {
				set(i, &Val{Typ: i.Type(), T: x.b.Sub(x.b.IntBig(hi), v)})
			}
		default:
			panic(unsupported("unary op " + i.Op.String()))
		}
		return nil, false

	case *ssa.Store:
		addr := x.valueIn(fr, bc.env, i.Addr)
		val := x.valueIn(fr, bc.env, i.Val)
		if addr.Loc != nil && addr.Loc.SliceR != nil && addr.Loc.SliceI == nil {
			// store of a whole heap array
			at := addr.Loc.Typ.Underlying().(*types.Array)
			vt := x.asTerm(val)
			for k := 0; k < int(at.Len()); k++ {
				l := &Loc{SliceR: addr.Loc.SliceR, SliceI: x.b.Int(int64(k)), RootTyp: at.Elem(), Typ: at.Elem()}
				x.storeLoc(bc.st, l, x.elemOf(vt, addr.Loc.Typ, x.b.Int(int64(k))))
			}
			return nil, false
		}
		loc := x.derefLoc(bc, in, addr)
		x.lockedWriteCheck(bc, in, loc)
		x.storeLoc(bc.st, loc, x.storable(val))
		return nil, false

	case *ssa.BinOp:
		a := x.valueIn(fr, bc.env, i.X)
		c := x.valueIn(fr, bc.env, i.Y)
		if i.Op == token.EQL || i.Op == token.NEQ {
			// comparison with the nil constant: "is nil" rather than structural equality
			var other *Val
			if isNilSSA(i.Y) {
				other = a
			} else if isNilSSA(i.X) {
				other = c
			}
			if other != nil {
				eq := x.isNil(other)
				if i.Op == token.NEQ {
					eq = x.b.Not(eq)
				}
				set(i, &Val{Typ: i.Type(), T: eq})
				return nil, false
			}
		}
		set(i, x.binop(bc, in, i.Op, a, c, i.X.Type(), i.Type()))
		return nil, false

	case *ssa.Phi:
		return nil, false

	case *ssa.Convert:
		set(i, x.convert(bc, x.valueIn(fr, bc.env, i.X), i.X.Type(), i.Type()))
		return nil, false

	case *ssa.ChangeType:
		v := x.valueIn(fr, bc.env, i.X)
		nv := *v
		nv.Typ = i.Type()
		set(i, &nv)
		return nil, false

	case *ssa.ChangeInterface:
		v := x.valueIn(fr, bc.env, i.X)
		nv := *v
		nv.Typ = i.Type()
		set(i, &nv)
		return nil, false

	case *ssa.MakeInterface:
		v := x.valueIn(fr, bc.env, i.X)
		set(i, x.makeInterface(v, i.X.Type(), i.Type()))
		return nil, false

	case *ssa.TypeAssert:
		set(i, x.typeAssert(bc, i))
		return nil, false

	case *ssa.Extract:
		t := x.valueIn(fr, bc.env, i.Tuple)
		if t.Tup == nil {
			panic(unsupported("extract from non-tuple"))
		}
		set(i, t.Tup[i.Index])
		return nil, false

	case *ssa.Field:
		v := x.term(bc, i.X)
		ft := i.X.Type().Underlying().(*types.Struct).Field(i.Field).Type()
		set(i, &Val{Typ: ft, T: x.fieldOf(v, i.X.Type(), i.Field)})
		return nil, false

	case *ssa.Index:
		switch i.X.Type().Underlying().(type) {
		case *types.Array:
			v := x.term(bc, i.X)
			idx := x.term(bc, i.Index)
			at := i.X.Type().Underlying().(*types.Array)
			x.check(bc, "safe:index", in, x.b.And(x.b.Cmp("<=", x.b.Int(0), idx), x.b.Cmp("<", idx, x.b.Int(at.Len()))))
			set(i, &Val{Typ: i.Type(), T: x.elemOf(v, i.X.Type(), idx)})
		default:
			// string index
			v := x.term(bc, i.X)
			idx := x.term(bc, i.Index)
			x.check(bc, "safe:index", in, x.b.And(x.b.Cmp("<=", x.b.Int(0), idx), x.b.Cmp("<", idx, x.b.App("strlen", "Int", v))))
			r := x.b.App("strat", "Int", v, idx)
			x.assume(bc.reach, x.b.And(x.b.Cmp("<=", x.b.Int(0), r), x.b.Cmp("<", r, x.b.Int(256))))
			set(i, &Val{Typ: i.Type(), T: r})
		}
		return nil, false

	case *ssa.Lookup:
		set(i, x.lookup(bc, i))
		return nil, false

	case *ssa.Slice:
		set(i, x.sliceOp(bc, i))
		return nil, false

	case *ssa.MakeSlice:
		ln := x.term(bc, i.Len)
		cp := x.term(bc, i.Cap)
		et := i.Type().Underlying().(*types.Slice).Elem()
		x.check(bc, "safe:make", in, x.b.And(x.b.Cmp("<=", x.b.Int(0), ln), x.b.Cmp("<=", ln, cp)))
		if bc.fr.safety && x.allocBudget != nil {
			x.oblige("safe:alloc", bc.fr.prefix+"safe:alloc", bc.reach, x.allocBudget(bc, cp), posOf(in), x.prog.srcLine(posOf(in)), false)
		}
		set(i, x.newSlice(bc, et, ln, cp, "make_"+i.Name()))
		return nil, false

	case *ssa.MakeMap:
		set(i, x.makeMap(bc, i))
		return nil, false

	case *ssa.MapUpdate:
		x.mapUpdate(bc, i)
		return nil, false

	case *ssa.MakeClosure:
		fn := i.Fn.(*ssa.Function)
		val := &Val{Typ: i.Type(), Fn: fn}
		for _, bnd := range i.Bindings {
			val.Binds = append(val.Binds, x.valueIn(fr, bc.env, bnd))
		}
		set(i, val)
		return nil, false

	case *ssa.Call:
		res := x.call(bc, i, i.Common())
		if res != nil {
			set(i, res)
		}
		if bc.reach == x.b.False {
			return nil, true
		}
		return nil, false

	case *ssa.Range:
		set(i, x.rangeInit(bc, i))
		return nil, false
	case *ssa.Next:
		set(i, x.rangeNext(bc, i))
		return nil, false

	case *ssa.RunDefers:
		if len(fr.defers) > 0 {
			x.runDefers(bc)
		}
		return nil, false
	case *ssa.Defer:
		x.deferCall(bc, i)
		return nil, false

	case *ssa.Jump:
		return []*Edge{{from: bc.b, to: bc.b.Succs[0], cond: bc.reach, st: bc.st, env: bc.env}}, true

	case *ssa.If:
		c := x.term(bc, i.Cond)
		return []*Edge{
			{from: bc.b, to: bc.b.Succs[0], cond: x.b.And(bc.reach, c), st: bc.st, env: bc.env},
			{from: bc.b, to: bc.b.Succs[1], cond: x.b.And(bc.reach, x.b.Not(c)), st: bc.st.clone(), env: bc.env},
		}, true

	case *ssa.Return:
		var vals []*Val
		for _, r := range i.Results {
			vals = append(vals, x.valueIn(fr, bc.env, r))
		}
		fr.returns = append(fr.returns, &retEdge{cond: bc.reach, vals: vals, st: bc.st, pos: i.Pos(), blk: bc.b})
		return nil, true

	case *ssa.Panic:
		if fr.safety {
			x.oblige("safe:panic", fr.prefix+"safe:panic", bc.reach, x.b.False, posOf(in), x.prog.srcLine(posOf(in)), false)
		}
		return nil, true

	case *ssa.MakeChan:
		// a channel is an opaque reference with a ghost send counter
		ref := x.freshRef("chan_" + i.Name())
		x.heapSorts["G_calls"] = "(Array Int Int)"
		bc.st.heaps["G_calls"] = x.sto(x.getHeap(bc.st, "G_calls"), ref, x.b.Int(0))
		set(i, &Val{Typ: i.Type(), T: ref})
		x.note("channels are modelled as ghost send counters (each sent value is assumed to be received exactly once)")
		return nil, false
	case *ssa.Send:
		ch := x.term(bc, i.Chan)
		v := x.valueIn(fr, bc.env, i.X)
		x.onSend(bc, in, i.Chan, ch, v)
		return nil, false
	case *ssa.Go:
		// spawned goroutines are outside the sequential model: their effects on
		// memory read by this function are not modelled (stated assumption)
		x.note("go statements are skipped: goroutine bodies are not part of the sequential verification condition; ghost(gos) counts the goroutines started")
		x.registerGhost("G_gos")
		bc.st.heaps["G_gos"] = x.b.Add(x.getHeap(bc.st, "G_gos"), x.b.Int(1))
		return nil, false
	case *ssa.Select:
		panic(unsupported(fmt.Sprintf("concurrency instruction %T", in)))
	}
	panic(unsupported(fmt.Sprintf("instruction %T", in)))
}

// storable converts a value to the term stored in memory.
func (x *Exec) storable(v *Val) *smt.Term {
	return x.asTerm(v)
}

// derefLoc turns a pointer value into a location (with a nil check for heap refs).
func (x *Exec) derefLoc(bc *blockCtx, in ssa.Instruction, p *Val) *Loc {
	if p.Loc != nil {
		return p.Loc
	}
	if p.T == nil {
		panic(unsupported("dereference of non-pointer value"))
	}
	pt, ok := p.Typ.Underlying().(*types.Pointer)
	if !ok {
		panic(unsupported("dereference of " + p.Typ.String()))
	}
	if bc != nil {
		x.check(bc, "safe:nil", in, x.b.Not(x.b.Eq(p.T, x.b.Int(0))))
	}
	if l := x.resolveIptr(p.T); l != nil {
		lc := *l
		return &lc
	}
	if at, ok := pt.Elem().Underlying().(*types.Array); ok && x.arrayPtrInSliceSpace {
		_ = at
	}
	return &Loc{Ref: p.T, RootTyp: pt.Elem(), Typ: pt.Elem()}
}

func (x *Exec) freshRef(name string) *smt.Term {
	r := x.b.Fresh("ref_"+name, "Int")
	if x.freshSet == nil {
		x.freshSet = map[int]bool{}
	}
	x.freshSet[r.ID] = true
	// fresh references lie above every reference that existed at entry, and above
	// every reference allocated so far on this path (allocation watermark G_alloc)
	x.axiom(x.b.Cmp(">=", r, x.b.Const("alloc0", "Int")))
	if x.curSt != nil {
		x.heapSorts["G_alloc"] = "Int"
		cur := x.getHeap(x.curSt, "G_alloc")
		x.axiom(x.b.Cmp(">=", r, cur))
		x.curSt.heaps["G_alloc"] = x.b.Add(r, x.b.Int(1))
	}
	x.axiom(x.b.Cmp(">", r, x.b.Int(0)))
	for _, p := range x.paramRefs {
		x.axiom(x.b.Not(x.b.Eq(r, p)))
		x.markDistinct(r, p)
	}
	if len(x.freshRefs) < 40 {
		for _, p := range x.freshRefs {
			x.axiom(x.b.Not(x.b.Eq(r, p)))
			x.markDistinct(r, p)
		}
	}
	x.freshRefs = append(x.freshRefs, r)
	return r
}

// slice accessors
func (x *Exec) sRef(s *smt.Term) *smt.Term { return x.sliceField(s, 0, "s_ref") }
func (x *Exec) sOff(s *smt.Term) *smt.Term { return x.sliceField(s, 1, "s_off") }
func (x *Exec) sLen(s *smt.Term) *smt.Term { return x.sliceField(s, 2, "s_len") }
func (x *Exec) sCap(s *smt.Term) *smt.Term { return x.sliceField(s, 3, "s_cap") }

func (x *Exec) sliceField(s *smt.Term, k int, sel string) *smt.Term {
	if s.Op == "mk_slice" {
		return s.Args[k]
	}
	if s.Op == "ite" {
		key := [2]int{s.ID, 2000 + k}
		if r, ok := x.projMemo[key]; ok {
			return r
		}
		r := x.b.Ite(s.Args[0], x.sliceField(s.Args[1], k, sel), x.sliceField(s.Args[2], k, sel))
		if x.projMemo == nil {
			x.projMemo = map[[2]int]*smt.Term{}
		}
		x.projMemo[key] = r
		return r
	}
	return x.b.App(sel, "Int", s)
}

func (x *Exec) mkSlice(ref, off, ln, cp *smt.Term) *smt.Term {
	return x.b.App("mk_slice", "Slice", ref, off, ln, cp)
}

func (x *Exec) newSlice(bc *blockCtx, et types.Type, ln, cp *smt.Term, name string) *Val {
	ref := x.freshRef(name)
	key := x.heapKeySlice(et)
	es := x.so.SortOf(et)
	zero := x.b.App(fmt.Sprintf("(as const (Array Int %s))", es), fmt.Sprintf("(Array Int %s)", es), x.zeroTerm(et))
	bc.st.heaps[key] = x.sto(x.getHeap(bc.st, key), ref, zero)
	return &Val{Typ: types.NewSlice(et), T: x.mkSlice(ref, x.b.Int(0), ln, cp)}
}

func (x *Exec) sliceOp(bc *blockCtx, i *ssa.Slice) *Val {
	base := x.valueIn(bc.fr, bc.env, i.X)
	var lo, hi *smt.Term
	if i.Low != nil {
		lo = x.term(bc, i.Low)
	} else {
		lo = x.b.Int(0)
	}
	if i.Max != nil {
		panic(unsupported("3-index slice"))
	}
	switch bt := i.X.Type().Underlying().(type) {
	case *types.Slice:
		s := x.asTerm(base)
		if i.High != nil {
			hi = x.term(bc, i.High)
		} else {
			hi = x.sLen(s)
		}
		x.check(bc, "safe:slice", i, x.b.And(x.b.Cmp("<=", x.b.Int(0), lo), x.b.Cmp("<=", lo, hi), x.b.Cmp("<=", hi, x.sCap(s))))
		return &Val{Typ: i.Type(), T: x.mkSlice(x.sRef(s), x.b.Add(x.sOff(s), lo), x.b.Sub(hi, lo), x.b.Sub(x.sCap(s), lo))}
	case *types.Pointer:
		at := bt.Elem().Underlying().(*types.Array)
		if base.Loc != nil && base.Loc.SliceR == nil && at.Len() <= 16 {
			// slice of an array that lives inside a struct / local cell: a *view*.
			// The slice gets its own backing (a snapshot of the array); copy() into a
			// view is written through to the array. Other uses that would need
			// aliasing between the two memories are rejected (see storeLoc).
			n := x.b.Int(at.Len())
			if i.High != nil {
				hi = x.term(bc, i.High)
			} else {
				hi = n
			}
			x.check(bc, "safe:slice", i, x.b.And(x.b.Cmp("<=", x.b.Int(0), lo), x.b.Cmp("<=", lo, hi), x.b.Cmp("<=", hi, n)))
			arr := x.loadLoc(bc.st, base.Loc)
			ref := x.freshRef("view_" + i.Name())
			es := x.so.SortOf(at.Elem())
			as := fmt.Sprintf("(Array Int %s)", es)
			contents := x.b.App(fmt.Sprintf("(as const %s)", as), as, x.zeroTerm(at.Elem()))
			for k := int64(0); k < at.Len(); k++ {
				contents = x.sto(contents, x.b.Int(k), x.elemOf(arr, bt.Elem(), x.b.Int(k)))
			}
			key := x.heapKeySlice(at.Elem())
			bc.st.heaps[key] = x.sto(x.getHeap(bc.st, key), ref, contents)
			if x.views == nil {
				x.views = map[int]*viewInfo{}
			}
			lc := *base.Loc
			x.views[ref.ID] = &viewInfo{loc: &lc, arrTyp: bt.Elem(), ref: ref}
			x.note("slices of arrays stored inside structs are snapshot views: copy() into them and element stores through them are written through; stores into the array itself after the view was taken are not seen by the view")
			return &Val{Typ: i.Type(), T: x.mkSlice(ref, lo, x.b.Sub(hi, lo), x.b.Sub(n, lo))}
		}
		if base.Loc == nil || base.Loc.SliceR == nil || base.Loc.SliceI != nil {
			panic(unsupported("slicing a pointer to array that is not a fresh heap array"))
		}
		n := x.b.Int(at.Len())
		if i.High != nil {
			hi = x.term(bc, i.High)
		} else {
			hi = n
		}
		x.check(bc, "safe:slice", i, x.b.And(x.b.Cmp("<=", x.b.Int(0), lo), x.b.Cmp("<=", lo, hi), x.b.Cmp("<=", hi, n)))
		return &Val{Typ: i.Type(), T: x.mkSlice(base.Loc.SliceR, lo, x.b.Sub(hi, lo), x.b.Sub(n, lo))}
	case *types.Basic:
		s := x.asTerm(base)
		ln := x.b.App("strlen", "Int", s)
		if i.High != nil {
			hi = x.term(bc, i.High)
		} else {
			hi = ln
		}
		x.check(bc, "safe:slice", i, x.b.And(x.b.Cmp("<=", x.b.Int(0), lo), x.b.Cmp("<=", lo, hi), x.b.Cmp("<=", hi, ln)))
		x.declareUF("substr", []string{"Str", "Int", "Int"}, "Str")
		r := x.b.App("substr", "Str", s, lo, hi)
		x.assume(bc.reach, x.b.Eq(x.b.App("strlen", "Int", r), x.b.Sub(hi, lo)))
		return &Val{Typ: i.Type(), T: r}
	}
	panic(unsupported("slice of " + i.X.Type().String()))
}

func (x *Exec) declareUF(name string, args []string, res string) {
	if x.ufDecl[name] {
		return
	}
	x.ufDecl[name] = true
	s := "(declare-fun " + name + " ("
	for i, a := range args {
		if i > 0 {
			s += " "
		}
		s += a
	}
	s += ") " + res + ")"
	x.b.Declare("fun:"+name, s)
}

// binop evaluates a binary operation on two values of operand type ot.
func (x *Exec) binop(bc *blockCtx, in ssa.Instruction, op token.Token, av, cv *Val, ot, rt types.Type) *Val {
	switch op {
	case token.EQL, token.NEQ:
		var eq *smt.Term
		if isNilConst(av) || isNilConst(cv) || av.Fn != nil || cv.Fn != nil {
			// comparison with nil
			o := av
			if isNilConst(av) {
				o = cv
			}
			eq = x.isNil(o)
		} else {
			eq = x.goEq(ot, x.asTerm(av), x.asTerm(cv))
		}
		if op == token.NEQ {
			eq = x.b.Not(eq)
		}
		return &Val{Typ: rt, T: eq}
	}
	a, c := x.asTerm(av), x.asTerm(cv)
	if _, isTP := ot.(*types.TypeParam); isTP {
		// arithmetic on a type parameter: an uninterpreted operation of that sort
		so := x.so.SortOf(ot)
		rs := x.so.SortOf(rt)
		name := "tpop_" + smt.Sanitize(op.String()) + "_" + smt.Sanitize(so)
		x.declareUF(name, []string{so, so}, rs)
		x.note("operators on values of a type parameter are uninterpreted functions")
		return &Val{Typ: rt, T: x.b.App(name, rs, a, c)}
	}
	if isFloat(ot) {
		switch op {
		case token.ADD, token.SUB, token.MUL, token.QUO:
			if op == token.QUO && !x.fp && bc != nil {
				// real model: division by zero has no defined result; the path is
				// only meaningful for a non-zero divisor (IEEE would give Inf/NaN).
				x.note("real model: float division assumes non-zero divisor (Inf/NaN not modelled)")
			}
			return &Val{Typ: rt, T: x.fArith(op.String(), a, c)}
		case token.LSS, token.LEQ, token.GTR, token.GEQ:
			return &Val{Typ: rt, T: x.fCmp(op.String(), a, c)}
		}
		panic(unsupported("float op " + op.String()))
	}
	if isString(ot) {
		switch op {
		case token.ADD:
			x.declareUF("strcat", []string{"Str", "Str"}, "Str")
			r := x.b.App("strcat", "Str", a, c)
			x.axiom(x.b.Eq(x.b.App("strlen", "Int", r), x.b.Add(x.b.App("strlen", "Int", a), x.b.App("strlen", "Int", c))))
			return &Val{Typ: rt, T: r}
		case token.LSS, token.LEQ, token.GTR, token.GEQ:
			x.declareUF("strless", []string{"Str", "Str"}, "Bool")
			switch op {
			case token.LSS:
				return &Val{Typ: rt, T: x.b.App("strless", "Bool", a, c)}
			case token.GTR:
				return &Val{Typ: rt, T: x.b.App("strless", "Bool", c, a)}
			case token.LEQ:
				return &Val{Typ: rt, T: x.b.Not(x.b.App("strless", "Bool", c, a))}
			default:
				return &Val{Typ: rt, T: x.b.Not(x.b.App("strless", "Bool", a, c))}
			}
		}
		panic(unsupported("string op " + op.String()))
	}
	if isBool(ot) {
		switch op {
		case token.AND, token.LAND:
			return &Val{Typ: rt, T: x.b.And(a, c)}
		case token.OR, token.LOR:
			return &Val{Typ: rt, T: x.b.Or(a, c)}
		}
		panic(unsupported("bool op " + op.String()))
	}
	// integers
	switch op {
	case token.ADD:
		return &Val{Typ: rt, T: x.wrapInt(rt, x.b.Add(a, c))}
	case token.SUB:
		return &Val{Typ: rt, T: x.wrapInt(rt, x.b.Sub(a, c))}
	case token.MUL:
		return &Val{Typ: rt, T: x.wrapInt(rt, x.b.Mul(a, c))}
	case token.QUO:
		if bc != nil {
			x.check(bc, "safe:div", in, x.b.Not(x.b.Eq(c, x.b.Int(0))))
		}
		return &Val{Typ: rt, T: x.wrapInt(rt, x.goDiv(a, c))}
	case token.REM:
		if bc != nil {
			x.check(bc, "safe:div", in, x.b.Not(x.b.Eq(c, x.b.Int(0))))
		}
		return &Val{Typ: rt, T: x.goRem(a, c)}
	case token.LSS, token.LEQ, token.GTR, token.GEQ:
		return &Val{Typ: rt, T: x.b.Cmp(op.String(), a, c)}
	case token.SHL:
		if c.IntV != nil && c.IntV.IsInt64() && c.IntV.Int64() >= 0 && c.IntV.Int64() < 128 {
			return &Val{Typ: rt, T: x.wrapInt(rt, x.b.Mul(a, x.b.IntBig(new(big.Int).Lsh(big.NewInt(1), uint(c.IntV.Int64())))))}
		}
		if a.IntV != nil && a.IntV.Sign() >= 0 {
			// const << symbolic : pow2 function
			x.declareUF("pow2", []string{"Int"}, "Int")
			x.pow2Axioms()
			return &Val{Typ: rt, T: x.wrapInt(rt, x.b.Mul(a, x.b.App("pow2", "Int", c)))}
		}
		x.declareUF("pow2", []string{"Int"}, "Int")
		x.pow2Axioms()
		return &Val{Typ: rt, T: x.wrapInt(rt, x.b.Mul(a, x.b.App("pow2", "Int", c)))}
	case token.SHR:
		if c.IntV != nil && c.IntV.IsInt64() && c.IntV.Int64() >= 0 && c.IntV.Int64() < 128 {
			// arithmetic shift = floor division
			return &Val{Typ: rt, T: x.b.App("div", "Int", a, x.b.IntBig(new(big.Int).Lsh(big.NewInt(1), uint(c.IntV.Int64()))))}
		}
		x.declareUF("pow2", []string{"Int"}, "Int")
		x.pow2Axioms()
		return &Val{Typ: rt, T: x.b.App("div", "Int", a, x.b.App("pow2", "Int", c))}
	case token.AND:
		return &Val{Typ: rt, T: x.bitAnd(a, c)}
	case token.OR:
		return &Val{Typ: rt, T: x.bitOr(a, c)}
	case token.XOR:
		x.declareUF("bitxor", []string{"Int", "Int"}, "Int")
		x.note("bitwise xor is uninterpreted")
		return &Val{Typ: rt, T: x.b.App("bitxor", "Int", a, c)}
	case token.AND_NOT:
		x.declareUF("bitandnot", []string{"Int", "Int"}, "Int")
		x.note("bitwise and-not is uninterpreted")
		return &Val{Typ: rt, T: x.b.App("bitandnot", "Int", a, c)}
	}
	panic(unsupported("integer op " + op.String()))
}

func (x *Exec) pow2Axioms() {
	if x.ufDecl["pow2ax"] {
		return
	}
	x.ufDecl["pow2ax"] = true
	for k := 0; k <= 16; k++ {
		x.axiom(x.b.Eq(x.b.App("pow2", "Int", x.b.Int(int64(k))), x.b.Int(1<<uint(k))))
	}
}

// bitAnd models x & mask for masks of the form 2^k-1 and single bits exactly,
// otherwise as an uninterpreted function with range facts.
func (x *Exec) bitAnd(a, c *smt.Term) *smt.Term {
	if a.IntV != nil && c.IntV != nil {
		return x.b.IntBig(new(big.Int).And(a.IntV, c.IntV))
	}
	if a.IntV != nil {
		a, c = c, a
	}
	if c.IntV != nil && c.IntV.Sign() >= 0 {
		m := new(big.Int).Add(c.IntV, big.NewInt(1))
		if m.BitLen() > 0 && new(big.Int).And(m, c.IntV).Sign() == 0 { // c = 2^k - 1
			return x.b.App("mod", "Int", a, x.b.IntBig(m))
		}
		// single bit 2^k: (a div 2^k mod 2) * 2^k
		if c.IntV.Sign() > 0 && new(big.Int).And(c.IntV, new(big.Int).Sub(c.IntV, big.NewInt(1))).Sign() == 0 {
			return x.b.Mul(x.b.App("mod", "Int", x.b.App("div", "Int", a, c), x.b.Int(2)), c)
		}
	}
	x.declareUF("bitand", []string{"Int", "Int"}, "Int")
	x.note("general bitwise and is uninterpreted (0 <= r <= operands for non-negative operands assumed)")
	r := x.b.App("bitand", "Int", a, c)
	return r
}

func (x *Exec) bitOr(a, c *smt.Term) *smt.Term {
	if a.IntV != nil && c.IntV != nil {
		return x.b.IntBig(new(big.Int).Or(a.IntV, c.IntV))
	}
	if a.IntV != nil {
		a, c = c, a
	}
	if c.IntV != nil && c.IntV.Sign() == 0 {
		return a
	}
	// a | 2^k = a + 2^k if bit k of a is clear, else a   (exact for a >= 0)
	if c.IntV != nil && c.IntV.Sign() > 0 && new(big.Int).And(c.IntV, new(big.Int).Sub(c.IntV, big.NewInt(1))).Sign() == 0 {
		bit := x.b.App("mod", "Int", x.b.App("div", "Int", a, c), x.b.Int(2))
		x.note("x | 2^k is modelled exactly for non-negative x")
		return x.b.Add(a, x.b.Mul(c, x.b.Sub(x.b.Int(1), bit)))
	}
	x.declareUF("bitor", []string{"Int", "Int"}, "Int")
	r := x.b.App("bitor", "Int", a, c)
	// a | c == a + c when c is a multiple of 2^k and 0 <= a < 2^k (no common bits): a valid fact
	for _, pr := range [][2]*smt.Term{{a, c}, {c, a}} {
		if k := multipleOfPow2(pr[1]); k != nil && !r.Bound {
			x.axiom(x.b.Implies(x.b.And(x.b.Cmp("<=", x.b.Int(0), pr[0]), x.b.Cmp("<", pr[0], x.b.IntBig(k)), x.b.Cmp("<=", x.b.Int(0), pr[1])),
				x.b.Eq(r, x.b.Add(pr[0], pr[1]))))
		}
	}
	x.note("general bitwise or is uninterpreted except for operands without common bits (low part | multiple of 2^k)")
	return r
}

// multipleOfPow2: t is syntactically  u * 2^k  (possibly reduced mod 2^n, n > k); returns 2^k.
func multipleOfPow2(t *smt.Term) *big.Int {
	if t.Op == "mod" && len(t.Args) == 2 && t.Args[1].IntV != nil {
		if k := multipleOfPow2(t.Args[0]); k != nil && new(big.Int).Rem(t.Args[1].IntV, k).Sign() == 0 {
			return k
		}
		return nil
	}
	if t.Op == "*" && len(t.Args) == 2 {
		for _, a := range t.Args {
			if a.IntV != nil && a.IntV.Sign() > 0 && new(big.Int).And(a.IntV, new(big.Int).Sub(a.IntV, big.NewInt(1))).Sign() == 0 && a.IntV.Cmp(big.NewInt(1)) > 0 {
				return a.IntV
			}
		}
	}
	return nil
}

func isNilConst(v *Val) bool {
	if v.T == nil || v.Loc != nil || v.Fn != nil {
		return false
	}
	if bt, ok := v.Typ.(*types.Basic); ok && bt.Kind() == types.UntypedNil {
		return true
	}
	return false
}

// isNil builds "v == nil" for pointer, slice, interface, map, func values.
func (x *Exec) isNil(v *Val) *smt.Term {
	if v.Fn != nil {
		return x.b.False
	}
	if v.Loc != nil {
		if t := x.locAsTerm(v); t != nil {
			return x.b.Eq(t, x.b.Int(0))
		}
		return x.b.False
	}
	switch v.Typ.Underlying().(type) {
	case *types.Slice:
		return x.b.Eq(x.sRef(v.T), x.b.Int(0))
	case *types.Interface:
		return x.b.Eq(x.b.App("i_tag", "Int", v.T), x.b.Int(0))
	}
	return x.b.Eq(v.T, x.b.Int(0))
}

// convert models a Go conversion.
func (x *Exec) convert(bc *blockCtx, v *Val, from, to types.Type) *Val {
	switch {
	case isInteger(from) && isInteger(to):
		return &Val{Typ: to, T: x.wrapInt(to, x.convIntWide(to, x.asTerm(v)))}
	case isInteger(from) && isFloat(to):
		t := x.asTerm(v)
		if !x.fp {
			if t.IntV != nil {
				return &Val{Typ: to, T: x.b.Real(new(big.Rat).SetInt(t.IntV))}
			}
			return &Val{Typ: to, T: x.b.App("to_real", "Real", t)}
		}
		s := x.so.FloatSort(to)
		eb, sb := "11", "53"
		if s == "(_ FloatingPoint 8 24)" {
			eb, sb = "8", "24"
		}
		return &Val{Typ: to, T: x.b.App(fmt.Sprintf("(_ to_fp %s %s)", eb, sb), s, x.b.Raw("RNE", "RoundingMode"), x.b.App("to_real", "Real", t))}
	case isFloat(from) && isInteger(to):
		t := x.asTerm(v)
		if !x.fp {
			// truncation toward zero
			fl := x.b.App("to_int", "Int", t)
			neg := x.b.Neg(x.b.App("to_int", "Int", x.b.Neg(t)))
			return &Val{Typ: to, T: x.b.Ite(x.b.Cmp(">=", t, x.b.Real(new(big.Rat))), fl, neg)}
		}
		panic(unsupported("float to int conversion in fp mode"))
	case isFloat(from) && isFloat(to):
		t := x.asTerm(v)
		if !x.fp {
			if x.so.SortOf(from) == x.so.SortOf(to) {
				fb := from.Underlying().(*types.Basic).Kind()
				tb := to.Underlying().(*types.Basic).Kind()
				if fb != tb && tb == types.Float32 {
					x.note("real model: float64->float32 rounding treated as identity")
				}
			}
			return &Val{Typ: to, T: t}
		}
		fs, ts := x.so.FloatSort(from), x.so.FloatSort(to)
		if fs == ts {
			return &Val{Typ: to, T: t}
		}
		eb, sb := "11", "53"
		if ts == "(_ FloatingPoint 8 24)" {
			eb, sb = "8", "24"
		}
		return &Val{Typ: to, T: x.b.App(fmt.Sprintf("(_ to_fp %s %s)", eb, sb), ts, x.b.Raw("RNE", "RoundingMode"), t)}
	case isString(to) || isString(from):
		return x.convString(bc, v, from, to)
	}
	// pointer / unsafe conversions etc.
	if x.so.SortOf(from) == x.so.SortOf(to) {
		nv := *v
		nv.Typ = to
		return &nv
	}
	panic(unsupported(fmt.Sprintf("conversion %s -> %s", from, to)))
}

// convIntWide: 64-bit signed<->unsigned reinterpretation.
func (x *Exec) convIntWide(to types.Type, t *smt.Term) *smt.Term {
	return t
}

func (x *Exec) convString(bc *blockCtx, v *Val, from, to types.Type) *Val {
	x.note("string<->[]byte/rune conversions are abstracted (length preserved for []byte)")
	if isString(to) {
		if sl, ok := from.Underlying().(*types.Slice); ok {
			_ = sl
			r := x.b.Fresh("str_of_bytes", "Str")
			x.assume(bc.reach, x.b.Eq(x.b.App("strlen", "Int", r), x.sLen(x.asTerm(v))))
			return &Val{Typ: to, T: r}
		}
		if isInteger(from) {
			r := x.b.Fresh("str_of_rune", "Str")
			x.assume(bc.reach, x.b.And(x.b.Cmp("<=", x.b.Int(1), x.b.App("strlen", "Int", r)), x.b.Cmp("<=", x.b.App("strlen", "Int", r), x.b.Int(4))))
			return &Val{Typ: to, T: r}
		}
		if isString(from) {
			nv := *v
			nv.Typ = to
			return &nv
		}
	}
	if isString(from) {
		if sl, ok := to.Underlying().(*types.Slice); ok {
			if bt, ok := sl.Elem().Underlying().(*types.Basic); ok && bt.Kind() == types.Uint8 {
				ln := x.b.App("strlen", "Int", x.asTerm(v))
				nv := x.newSlice(bc, sl.Elem(), ln, ln, "bytes_of_str")
				nv.Typ = to
				// contents unknown: havoc backing
				key := x.heapKeySlice(sl.Elem())
				h := x.getHeap(bc.st, key)
				bc.st.heaps[key] = x.sto(h, x.sRef(nv.T), x.b.Fresh("bytes", "(Array Int Int)"))
				return nv
			}
		}
	}
	panic(unsupported(fmt.Sprintf("string conversion %s -> %s", from, to)))
}

// interfaces ----------------------------------------------------------

func (x *Exec) makeInterface(v *Val, from, to types.Type) *Val {
	tag := x.b.Int(int64(x.so.TypeTag(from)))
	var ref *smt.Term
	if _, ok := from.Underlying().(*types.Pointer); ok {
		ref = x.asTerm(v)
	} else {
		s := x.so.SortOf(from)
		box := "box_" + smt.Sanitize(s)
		unbox := "unbox_" + smt.Sanitize(s)
		x.declareUF(box, []string{s}, "Int")
		x.declareUF(unbox, []string{"Int"}, s)
		t := x.asTerm(v)
		ref = x.b.App(box, "Int", t)
		x.axiom(x.b.Eq(x.b.App(unbox, s, ref), t))
	}
	return &Val{Typ: to, T: x.b.App("mk_iface", "Iface", tag, ref)}
}

func (x *Exec) typeAssert(bc *blockCtx, i *ssa.TypeAssert) *Val {
	v := x.term(bc, i.X)
	if _, isIface := i.AssertedType.Underlying().(*types.Interface); isIface {
		// interface-to-interface: succeeds iff dynamic type implements it; we
		// treat success as unknown unless it is the same interface.
		ok := x.b.Fresh("implements", "Bool")
		if types.Identical(i.X.Type(), i.AssertedType) || types.AssignableTo(i.X.Type(), i.AssertedType) {
			ok = x.b.Not(x.b.Eq(x.b.App("i_tag", "Int", v), x.b.Int(0)))
		}
		res := &Val{Typ: i.AssertedType, T: v}
		if i.CommaOk {
			return &Val{Typ: i.Type(), Tup: []*Val{res, {Typ: types.Typ[types.Bool], T: ok}}}
		}
		x.check(bc, "safe:assert", i, ok)
		return res
	}
	tag := x.b.Int(int64(x.so.TypeTag(i.AssertedType)))
	ok := x.b.Eq(x.b.App("i_tag", "Int", v), tag)
	var inner *smt.Term
	ref := x.b.App("i_ref", "Int", v)
	if v.Op == "mk_iface" {
		ref = v.Args[1]
	}
	if _, isPtr := i.AssertedType.Underlying().(*types.Pointer); isPtr {
		inner = ref
	} else {
		s := x.so.SortOf(i.AssertedType)
		unbox := "unbox_" + smt.Sanitize(s)
		box := "box_" + smt.Sanitize(s)
		x.declareUF(box, []string{s}, "Int")
		x.declareUF(unbox, []string{"Int"}, s)
		inner = x.b.App(unbox, s, ref)
	}
	res := &Val{Typ: i.AssertedType, T: inner}
	if i.CommaOk {
		// on failure the value is the zero value
		z := x.zeroTerm(i.AssertedType)
		return &Val{Typ: i.Type(), Tup: []*Val{{Typ: i.AssertedType, T: x.b.Ite(ok, inner, z)}, {Typ: types.Typ[types.Bool], T: ok}}}
	}
	x.check(bc, "safe:assert", i, ok)
	return res
}

// allocIsSliced reports whether the address of a heap array is used by a Slice instruction.
func allocIsSliced(a *ssa.Alloc) bool {
	if refs := a.Referrers(); refs != nil {
		for _, r := range *refs {
			if _, ok := r.(*ssa.Slice); ok {
				return true
			}
		}
	}
	return false
}

// oldRefFacts: a reference read from the initial heap existed at entry, hence
// is below alloc0 (and so distinct from everything allocated by this call).
func (x *Exec) oldRefFacts(t *smt.Term, typ types.Type) {
	if t.Bound || !x.fromInitHeap(t) {
		return
	}
	a0 := x.b.Const("alloc0", "Int")
	switch typ.Underlying().(type) {
	case *types.Pointer, *types.Map:
		x.axiom(x.b.Cmp("<", t, a0))
	case *types.Slice:
		x.axiom(x.b.Cmp("<", x.sRef(t), a0))
	case *types.Interface:
		x.axiom(x.b.Cmp("<", x.b.App("i_ref", "Int", t), a0))
	}
}

// oldRefFactsDeep applies oldRefFacts to the reference-typed components of a
// (struct) value read from memory that existed at entry.
func (x *Exec) oldRefFactsDeep(t *smt.Term, typ types.Type, depth int) {
	if depth > 3 || t.Bound {
		return
	}
	if st, ok := typ.Underlying().(*types.Struct); ok {
		if _, isTP := typ.(*types.TypeParam); isTP {
			return
		}
		for i := 0; i < st.NumFields(); i++ {
			x.oldRefFactsDeep(x.fieldOf(t, typ, i), st.Field(i).Type(), depth+1)
		}
		return
	}
	x.oldRefFacts(t, typ)
}

// allocFactsDeep: every reference read from memory was allocated earlier, so it
// lies below the current allocation watermark (and is therefore different from
// anything allocated later).
func (x *Exec) allocFactsDeep(bc *blockCtx, t *smt.Term, typ types.Type, depth int) {
	if depth > 2 || t.Bound {
		return
	}
	if _, ok := x.heapSorts["G_alloc"]; !ok {
		x.heapSorts["G_alloc"] = "Int"
	}
	wm := x.getHeap(bc.st, "G_alloc")
	switch u := typ.Underlying().(type) {
	case *types.Pointer, *types.Map, *types.Chan:
		x.assume(bc.reach, x.b.Cmp("<", t, wm))
	case *types.Slice:
		x.assume(bc.reach, x.b.Cmp("<", x.sRef(t), wm))
	case *types.Struct:
		if _, isTP := typ.(*types.TypeParam); isTP {
			return
		}
		for i := 0; i < u.NumFields(); i++ {
			switch u.Field(i).Type().Underlying().(type) {
			case *types.Pointer, *types.Map, *types.Chan, *types.Slice, *types.Struct:
				x.allocFactsDeep(bc, x.fieldOf(t, typ, i), u.Field(i).Type(), depth+1)
			}
		}
	}
}

// lockedWriteCheck: `opt lockedwrites H(T) HS(T) ...` on the contract of a
// worker body lists memory shared between workers; every store into it (also in
// inlined callees) must happen while a mutex is held (ghost(locked) >= 1,
// maintained by the trusted contracts of sync.Mutex.Lock / Unlock).
func (x *Exec) lockedWriteCheck(bc *blockCtx, in ssa.Instruction, loc *Loc) {
	if x.rootC == nil || x.spec > 0 {
		return
	}
	spec := x.rootC.Opts["lockedwrites"]
	if spec == "" {
		return
	}
	var key string
	switch {
	case loc.SliceR != nil:
		key = x.heapKeySlice(loc.RootTyp)
		if x.freshSet[loc.SliceR.ID] {
			return // memory allocated by this activation is not shared
		}
	case loc.Ref != nil:
		key = x.heapKeyPtr(loc.RootTyp)
		if x.freshSet[loc.Ref.ID] {
			return
		}
	default:
		return
	}
	ce := &CEnv{x: x, fr: bc.fr, st: bc.st, pkg: fnPkg(x.root)}
	for _, tok := range strings.Fields(spec) {
		if x.resolveHeapName(ce, tok) == key {
			x.registerGhost("G_locked")
			x.oblige("frame:locked", bc.fr.prefix+"frame:locked-write("+key+")", bc.reach, x.b.Cmp(">=", x.getHeap(bc.st, "G_locked"), x.b.Int(1)), posOf(in),
				"store into memory shared between workers must hold the lock: "+x.prog.srcLine(posOf(in)), false)
		}
	}
}

func isNilSSA(v ssa.Value) bool {
	c, ok := v.(*ssa.Const)
	if !ok || c.Value != nil {
		return false
	}
	switch c.Type().Underlying().(type) {
	case *types.Pointer, *types.Interface, *types.Slice, *types.Map, *types.Signature, *types.Chan:
		return true
	}
	if b, ok := c.Type().(*types.Basic); ok && b.Kind() == types.UntypedNil {
		return true
	}
	return false
}

// onSend: obligations attached to sends on a named channel variable
// (`oncall <chan> ...` with the sent value as arg0), plus the ghost send counter.
func (x *Exec) onSend(bc *blockCtx, in ssa.Instruction, chv ssa.Value, ch *smt.Term, v *Val) {
	name := ""
	if refs := chv.Referrers(); refs != nil {
		for _, r := range *refs {
			if d, ok := r.(*ssa.DebugRef); ok {
				if id, ok := d.Expr.(interface{ String() string }); ok {
					name = id.String()
					break
				}
			}
		}
	}
	if bc.fr.fc != nil && x.spec == 0 && name != "" {
		for i, cl := range bc.fr.fc.OnCall[name] {
			vars := map[string]*Val{}
			for k, w := range bc.fr.params {
				vars[k] = w
			}
			vars["arg0"] = v
			ce := &CEnv{x: x, fr: bc.fr, st: bc.st, old: bc.fr.entry, vars: vars, lets: bc.fr.lets, guard: bc.reach, fc: bc.fr.fc, env: bc.env}
			lab := fmt.Sprintf("#%d", i)
			if cl.Label != "" {
				lab = ":" + cl.Label
			}
			x.oblige("oncall", fmt.Sprintf("%sonsend(%s)%s", bc.fr.prefix, name, lab), bc.reach, x.evalBool(ce, cl), posOf(in), cl.Text, false)
		}
	}
	x.heapSorts["G_calls"] = "(Array Int Int)"
	h := x.getHeap(bc.st, "G_calls")
	bc.st.heaps["G_calls"] = x.sto(h, ch, x.b.Add(x.sel(h, ch, "Int"), x.b.Int(1)))
}

// privateRef is the heap cell of a local variable that is only ever loaded,
// stored and captured by function literals: its address is never stored in
// memory, converted, returned or passed on as a value, so no code outside this
// function and its literals can reach it.
type privateRef struct {
	ref   *smt.Term
	key   string
	sort  string
	alloc *ssa.Alloc
}

func privateAlloc(a *ssa.Alloc) bool {
	return addrOnlyDerefed(a, 0)
}

func addrOnlyDerefed(v ssa.Value, depth int) bool {
	if depth > 3 {
		return false
	}
	refs := v.Referrers()
	if refs == nil {
		return false
	}
	for _, r := range *refs {
		switch u := r.(type) {
		case *ssa.DebugRef:
		case *ssa.Store:
			if u.Val == v {
				return false
			}
		case *ssa.UnOp:
			if u.Op != token.MUL {
				return false
			}
		case *ssa.MakeClosure:
			fn, ok := u.Fn.(*ssa.Function)
			if !ok {
				return false
			}
			for k, b := range u.Bindings {
				if b == v {
					if k >= len(fn.FreeVars) || !addrOnlyDerefed(fn.FreeVars[k], depth+1) {
						return false
					}
				}
			}
			// the literal itself must only be called or passed as an argument
			if crefs := u.Referrers(); crefs != nil {
				for _, cr := range *crefs {
					switch c := cr.(type) {
					case *ssa.DebugRef:
					case *ssa.Call:
						_ = c
					default:
						return false
					}
				}
			}
		default:
			return false
		}
	}
	return true
}

// preservePrivate: after every heap was made unknown by a call, the private
// cells keep their contents unless a function literal that captures them was
// handed to the callee (closureArgEffects deals with those).
func (x *Exec) preservePrivate(bc *blockCtx, old map[string]*smt.Term, args []*Val) {
	if len(x.privateRefs) == 0 {
		return
	}
	captured := map[*ssa.Alloc]bool{}
	for _, a := range args {
		if a == nil || a.Fn == nil {
			continue
		}
		for _, b := range a.Binds {
			if b != nil && b.Loc != nil && b.Loc.Ref != nil {
				for _, pr := range x.privateRefs {
					if pr.ref == b.Loc.Ref {
						captured[pr.alloc] = true
					}
				}
			}
		}
	}
	for _, pr := range x.privateRefs {
		if captured[pr.alloc] {
			continue
		}
		o, ok := old[pr.key]
		if !ok {
			continue
		}
		bc.st.heaps[pr.key] = x.sto(x.getHeap(bc.st, pr.key), pr.ref, x.sel(o, pr.ref, pr.sort))
	}
}
