package vc

import (
	"fmt"
	"go/constant"
	"go/token"
	"go/types"
	"math/big"
	"strconv"
	"strings"

	"golang.org/x/tools/go/ssa"

	"verifengine/smt"
)

// CEnv is the environment for evaluating contract expressions.
type CEnv struct {
	x     *Exec
	fr    *Frame
	st    *State
	old   *State
	env   *Env  // SSA values (for $vars)
	loop  *loop // current loop (for $vars)
	vars  map[string]*Val
	lets  map[string]*Val
	bound map[string]*Val
	pkg   *ssa.Package
	guard *smt.Term
	fc    *FuncContract
	depth int
	hypo  bool            // the expression is being assumed (not proved)
	at    *ssa.BasicBlock // program point (block) the expression is evaluated at, if known
}

func (ce *CEnv) withState(st *State) *CEnv {
	n := *ce
	n.st = st
	return &n
}

func (ce *CEnv) withBound(name string, v *Val) *CEnv {
	n := *ce
	n.bound = map[string]*Val{}
	for k, w := range ce.bound {
		n.bound[k] = w
	}
	n.bound[name] = v
	return &n
}

var (
	untypedInt   = types.Typ[types.UntypedInt]
	untypedFloat = types.Typ[types.UntypedFloat]
	boolT        = types.Typ[types.Bool]
	intT         = types.Typ[types.Int]
	float64T     = types.Typ[types.Float64]
)

type evalErr struct{ msg string }

func (e evalErr) Error() string { return e.msg }

func cfail(format string, a ...interface{}) { panic(evalErr{fmt.Sprintf(format, a...)}) }

// evalBool evaluates a clause to a Bool term.
func (x *Exec) evalBool(ce *CEnv, c *Clause) *smt.Term {
	defer func() {
		if r := recover(); r != nil {
			if ee, ok := r.(evalErr); ok {
				panic(evalErr{fmt.Sprintf("%s:%d: in %q: %s", c.File, c.Line, c.Text, ee.msg)})
			}
			panic(r)
		}
	}()
	v := x.eval(ce, c.E)
	if v.T == nil || v.T.Sort != "Bool" {
		cfail("clause is not boolean")
	}
	return v.T
}

func (x *Exec) evalLets(ce *CEnv, fc *FuncContract) {
	if fc == nil {
		return
	}
	if ce.lets == nil {
		ce.lets = map[string]*Val{}
	}
	for _, l := range fc.Lets {
		func() {
			defer func() {
				if r := recover(); r != nil {
					if ee, ok := r.(evalErr); ok {
						panic(evalErr{fmt.Sprintf("%s:%d: in let %s: %s", l.File, l.Line, l.Label, ee.msg)})
					}
					panic(r)
				}
			}()
			v := x.eval(ce, l.E)
			if l.Kind == "olet" && v.T != nil && (v.T.Sort == "Int" || v.T.Sort == "Real") && len(v.T.Args) > 0 {
				c := x.b.Fresh("olet_"+l.Label, v.T.Sort)
				eq := x.b.Eq(c, v.T)
				x.axiom(eq)
				if x.keepHyp == nil {
					x.keepHyp = map[int]bool{}
				}
				x.keepHyp[eq.ID] = true
				v = &Val{Typ: v.Typ, T: c}
			}
			ce.lets[l.Label] = v
		}()
	}
}

func (x *Exec) pkgOf(ce *CEnv) *ssa.Package {
	if ce.pkg != nil {
		return ce.pkg
	}
	if ce.fr != nil {
		return fnPkg(ce.fr.fn)
	}
	return nil
}

func fnPkg(f *ssa.Function) *ssa.Package {
	for f != nil {
		if f.Pkg != nil {
			return f.Pkg
		}
		if f.Parent() != nil {
			f = f.Parent()
			continue
		}
		if f.Origin() != nil {
			f = f.Origin()
			continue
		}
		break
	}
	return nil
}

// coerce adapts untyped constants to type t.
func (x *Exec) coerce(v *Val, t types.Type) *Val {
	if v.Typ == untypedInt {
		if isFloat(t) {
			return &Val{Typ: t, T: x.floatLit(t, new(big.Rat).SetInt(v.T.IntV))}
		}
		if isInteger(t) {
			return &Val{Typ: t, T: v.T}
		}
	}
	if v.Typ == untypedFloat {
		if isFloat(t) {
			return &Val{Typ: t, T: x.floatLit(t, v.T.RatV)}
		}
		if isInteger(t) && v.T.RatV.IsInt() {
			return &Val{Typ: t, T: x.b.IntBig(v.T.RatV.Num())}
		}
	}
	return v
}

func isUntyped(v *Val) bool { return v.Typ == untypedInt || v.Typ == untypedFloat }

func (x *Exec) unify(a, c *Val) (*Val, *Val) {
	if isUntyped(a) && !isUntyped(c) {
		return x.coerce(a, c.Typ), c
	}
	if isUntyped(c) && !isUntyped(a) {
		return a, x.coerce(c, a.Typ)
	}
	if a.Typ == untypedInt && c.Typ == untypedFloat {
		return &Val{Typ: untypedFloat, T: x.b.Real(new(big.Rat).SetInt(a.T.IntV))}, c
	}
	if a.Typ == untypedFloat && c.Typ == untypedInt {
		return a, &Val{Typ: untypedFloat, T: x.b.Real(new(big.Rat).SetInt(c.T.IntV))}
	}
	return a, c
}

func (x *Exec) eval(ce *CEnv, e Expr) *Val {
	v := x.eval1(ce, e)
	if v != nil && x.exprTypes != nil {
		x.exprTypes[e] = v.Typ
	}
	return v
}

func (x *Exec) eval1(ce *CEnv, e Expr) *Val {
	switch n := e.(type) {
	case *EInt:
		return &Val{Typ: untypedInt, T: x.b.IntBig(n.V)}
	case *EFloat:
		return &Val{Typ: untypedFloat, T: x.b.Real(n.V)}
	case *EBool:
		return &Val{Typ: boolT, T: x.b.Bool(n.V)}
	case *EString:
		return &Val{Typ: types.Typ[types.String], T: x.strLit(n.V)}
	case *EIdent:
		return x.evalIdent(ce, n.Name)
	case *EUnary:
		v := x.eval(ce, n.X)
		switch n.Op {
		case "!":
			return &Val{Typ: boolT, T: x.b.Not(v.T)}
		case "*":
			pt, ok := v.Typ.Underlying().(*types.Pointer)
			if !ok {
				cfail("* applied to non-pointer %s", v.Typ)
			}
			loc := x.derefLoc(nil, nil, v)
			return &Val{Typ: pt.Elem(), T: x.loadLoc(ce.st, loc)}
		case "-":
			if isUntyped(v) {
				if v.Typ == untypedInt {
					return &Val{Typ: untypedInt, T: x.b.IntBig(new(big.Int).Neg(v.T.IntV))}
				}
				return &Val{Typ: untypedFloat, T: x.b.Real(new(big.Rat).Neg(v.T.RatV))}
			}
			if isFloat(v.Typ) {
				return &Val{Typ: v.Typ, T: x.fNeg(v.T)}
			}
			return &Val{Typ: v.Typ, T: x.b.Neg(v.T)}
		}
	case *EBinary:
		return x.evalBinary(ce, n)
	case *ECond:
		c := x.eval(ce, n.C)
		a := x.eval(ce, n.A)
		b := x.eval(ce, n.B)
		a, b = x.unify(a, b)
		return x.iteVal(c.T, a, b)
	case *ESel:
		return x.evalSel(ce, n)
	case *EIndex:
		return x.evalIndex(ce, n)
	case *ESlice:
		base := x.eval(ce, n.X)
		s := x.asTerm(base)
		lo := x.b.Int(0)
		hi := x.sLen(s)
		if n.Lo != nil {
			lo = x.coerce(x.eval(ce, n.Lo), intT).T
		}
		if n.Hi != nil {
			hi = x.coerce(x.eval(ce, n.Hi), intT).T
		}
		return &Val{Typ: base.Typ, T: x.mkSlice(x.sRef(s), x.b.Add(x.sOff(s), lo), x.b.Sub(hi, lo), x.b.Sub(x.sCap(s), lo))}
	case *ECall:
		return x.evalCall(ce, n)
	}
	cfail("cannot evaluate expression %T", e)
	return nil
}

func (x *Exec) evalIdent(ce *CEnv, name string) *Val {
	if v, ok := ce.bound[name]; ok {
		return v
	}
	if v, ok := ce.lets[name]; ok {
		return v
	}
	if strings.HasPrefix(name, "$") {
		return x.loopVar(ce, name[1:])
	}
	// captured variable of a closure under contract: its value in the state the
	// expression is evaluated in (so that loop invariants see the current value)
	if ce.fr != nil && ce.fr.fn != nil && ce.env != nil {
		for _, fv := range ce.fr.fn.FreeVars {
			if fv.Name() == name {
				if pv := ce.env.lookup(fv); pv != nil {
					if pt, ok := fv.Type().(*types.Pointer); ok {
						loc := x.derefLoc(nil, nil, pv)
						return &Val{Typ: pt.Elem(), T: x.loadLoc(ce.st, loc)}
					}
				}
			}
		}
	}
	if v, ok := ce.vars[name]; ok {
		return v
	}
	if name == "nil" {
		return &Val{Typ: types.Typ[types.UntypedNil], T: x.b.Int(0)}
	}
	// package-level constant or variable
	if pkg := x.pkgOf(ce); pkg != nil {
		if obj := pkg.Pkg.Scope().Lookup(name); obj != nil {
			switch o := obj.(type) {
			case *types.Const:
				return x.constVal(defaultType(o.Type()), o.Val())
			case *types.Var:
				if g, ok := pkg.Members[name].(*ssa.Global); ok {
					gv := x.valueIn(nil, newEnv(nil), g)
					return &Val{Typ: o.Type(), T: x.loadLoc(ce.st, gv.Loc)}
				}
			}
		}
	}
	// local variable of the function under contract (resolved like $name)
	if ce.fr != nil && ce.env != nil {
		var out *Val
		func() {
			defer func() {
				if r := recover(); r != nil {
					if _, ok := r.(evalErr); !ok {
						panic(r)
					}
				}
			}()
			out = x.loopVar(ce, name)
		}()
		if out != nil {
			return out
		}
	}
	cfail("unknown identifier %s", name)
	return nil
}

func defaultType(t types.Type) types.Type {
	if b, ok := t.(*types.Basic); ok && b.Info()&types.IsUntyped != 0 {
		return types.Default(t)
	}
	return t
}

// loopVar resolves $name: header phi, local cell, or debug-named SSA value.
func (x *Exec) loopVar(ce *CEnv, name string) *Val {
	if ce.fr == nil {
		cfail("$%s used outside a function body", name)
	}
	fn := ce.fr.fn
	if ce.loop != nil && ce.env != nil {
		for _, in := range ce.loop.header.Instrs {
			phi, ok := in.(*ssa.Phi)
			if !ok {
				break
			}
			if phi.Comment == name {
				if v := ce.env.lookup(phi); v != nil {
					return v
				}
			}
		}
	}
	// local cell
	for _, b := range fn.Blocks {
		for _, in := range b.Instrs {
			if a, ok := in.(*ssa.Alloc); ok && a.Comment == name {
				if ck := ce.fr.cells[a]; ck != nil {
					if t, ok := ce.st.cells[ck]; ok {
						return &Val{Typ: a.Type().(*types.Pointer).Elem(), T: t}
					}
				}
				if a.Heap && ce.env != nil {
					if v := ce.env.lookup(a); v != nil && v.Loc != nil {
						return &Val{Typ: a.Type().(*types.Pointer).Elem(), T: x.loadLoc(ce.st, v.Loc)}
					}
				}
			}
		}
	}
	// named SSA values: phis carrying the variable's name and debug-referenced
	// values. Inside a loop prefer values of that loop; otherwise prefer the
	// latest definition (highest block index) that is available.
	type cand struct {
		v      ssa.Value
		blk    int
		inLoop bool
	}
	var cands []cand
	for _, b := range fn.Blocks {
		for _, in := range b.Instrs {
			switch d := in.(type) {
			case *ssa.Phi:
				if d.Comment == name {
					cands = append(cands, cand{d, b.Index, ce.loop != nil && ce.loop.blocks[b]})
				}
			case *ssa.DebugRef:
				if d.IsAddr {
					continue
				}
				if id, ok := d.Expr.(interface{ String() string }); ok && id.String() == name {
					cands = append(cands, cand{d.X, b.Index, ce.loop != nil && ce.loop.blocks[b]})
				}
			}
		}
	}
	if ce.env != nil && len(cands) > 0 {
		if ce.loop != nil {
			// first candidate inside the loop (evaluated from the loop-head values)
			for _, c := range cands {
				if c.inLoop {
					if v := x.evalPure(ce, c.v, 0); v != nil {
						return v
					}
				}
			}
			// no definition inside the loop: the variable is not modified by the
			// loop, so the definition that reaches the loop header is wanted -- among
			// the definitions whose block dominates the header, the innermost one
			// (e.g. the phi of an enclosing loop rather than the initial `y := 0`)
			var bestV *Val
			var bestB *ssa.BasicBlock
			for _, c := range cands {
				in, ok := c.v.(ssa.Instruction)
				var db *ssa.BasicBlock
				if ok {
					db = in.Block()
				} else {
					db = fn.Blocks[0]
				}
				if db != ce.loop.header && !db.Dominates(ce.loop.header) {
					continue
				}
				v := x.evalPure(ce, c.v, 0)
				if v == nil {
					continue
				}
				if bestB == nil || bestB == db || bestB.Dominates(db) {
					bestV, bestB = v, db
				}
			}
			if bestV != nil {
				return bestV
			}
			for _, c := range cands {
				if v := x.evalPure(ce, c.v, 0); v != nil {
					return v
				}
			}
		} else {
			// the definition that reaches the evaluation point: among the values
			// whose defining block dominates it, the most deeply nested one
			var bestV *Val
			var bestB *ssa.BasicBlock
			for _, c := range cands {
				in, ok := c.v.(ssa.Instruction)
				var db *ssa.BasicBlock
				if ok {
					db = in.Block()
				} else {
					db = fn.Blocks[0]
				}
				if ce.at != nil && db != ce.at && !db.Dominates(ce.at) {
					continue
				}
				v := ce.env.lookup(c.v)
				if v == nil {
					continue
				}
				if bestB == nil || bestB == db || bestB.Dominates(db) {
					bestV, bestB = v, db
				}
			}
			if bestV != nil {
				return bestV
			}
		}
	}
	// parameters
	for _, p := range fn.Params {
		if p.Name() == name && ce.env != nil {
			if v := ce.env.lookup(p); v != nil {
				return v
			}
		}
	}
	cfail("cannot resolve loop variable $%s in %s", name, fn.Name())
	return nil
}

// evalPure evaluates side-effect-free SSA values whose operands are available.
func (x *Exec) evalPure(ce *CEnv, v ssa.Value, depth int) *Val {
	if depth > 8 {
		return nil
	}
	switch c := v.(type) {
	case *ssa.Const, *ssa.Function, *ssa.Global:
		return x.valueIn(ce.fr, ce.env, c)
	}
	if r := ce.env.lookup(v); r != nil {
		// phis of the current header are resolved by env; other values too
		if _, isPhi := v.(*ssa.Phi); isPhi {
			return r
		}
		if ce.loop == nil {
			return r
		}
		// value defined inside the current loop: recompute from phis so that the
		// result refers to the evaluation point, not a previous iteration.
		if in, ok := v.(ssa.Instruction); ok && in.Block() != nil && !ce.loop.blocks[in.Block()] {
			return r
		}
	}
	switch i := v.(type) {
	case *ssa.BinOp:
		a := x.evalPure(ce, i.X, depth+1)
		c := x.evalPure(ce, i.Y, depth+1)
		if a == nil || c == nil {
			return nil
		}
		return x.binop(nil, i, i.Op, a, c, i.X.Type(), i.Type())
	case *ssa.UnOp:
		if i.Op == token.MUL {
			p := x.evalPure(ce, i.X, depth+1)
			if p == nil {
				return nil
			}
			loc := x.derefLoc(nil, i, p)
			return &Val{Typ: i.Type(), T: x.loadLoc(ce.st, loc)}
		}
		a := x.evalPure(ce, i.X, depth+1)
		if a == nil {
			return nil
		}
		switch i.Op {
		case token.SUB:
			if isFloat(i.Type()) {
				return &Val{Typ: i.Type(), T: x.fNeg(a.T)}
			}
			return &Val{Typ: i.Type(), T: x.b.Neg(a.T)}
		case token.NOT:
			return &Val{Typ: i.Type(), T: x.b.Not(a.T)}
		}
	case *ssa.Convert:
		a := x.evalPure(ce, i.X, depth+1)
		if a == nil {
			return nil
		}
		return x.convert(&blockCtx{fr: ce.fr, reach: ce.guard, st: ce.st, env: ce.env}, a, i.X.Type(), i.Type())
	case *ssa.ChangeType:
		a := x.evalPure(ce, i.X, depth+1)
		if a == nil {
			return nil
		}
		nv := *a
		nv.Typ = i.Type()
		return &nv
	case *ssa.Phi:
		return ce.env.lookup(i)
	case *ssa.Alloc:
		return ce.env.lookup(i)
	case *ssa.FieldAddr, *ssa.IndexAddr:
		return ce.env.lookup(v)
	}
	return ce.env.lookup(v)
}

func (x *Exec) evalBinary(ce *CEnv, n *EBinary) *Val {
	switch n.Op {
	case "==>":
		a := x.eval(ce, n.X)
		c := x.eval(ce, n.Y)
		return &Val{Typ: boolT, T: x.b.Implies(a.T, c.T)}
	case "<==>":
		a := x.eval(ce, n.X)
		c := x.eval(ce, n.Y)
		return &Val{Typ: boolT, T: x.b.Eq(a.T, c.T)}
	case "&&":
		a := x.eval(ce, n.X)
		c := x.eval(ce, n.Y)
		return &Val{Typ: boolT, T: x.b.And(a.T, c.T)}
	case "||":
		a := x.eval(ce, n.X)
		c := x.eval(ce, n.Y)
		return &Val{Typ: boolT, T: x.b.Or(a.T, c.T)}
	}
	a := x.eval(ce, n.X)
	c := x.eval(ce, n.Y)
	if n.Op == "*" && (isStructLike(a.Typ) != isStructLike(c.Typ)) {
		// scalar * vector
		vec, sc := a, c
		if isStructLike(c.Typ) {
			vec, sc = c, a
		}
		sc = x.coerce(sc, float64T)
		si := x.so.StructInfo(vec.Typ)
		fs := make([]*smt.Term, len(si.Fields))
		for i := range fs {
			fs[i] = x.fArith("*", x.fieldOf(vec.T, vec.Typ, i), sc.T)
		}
		return &Val{Typ: vec.Typ, T: x.mkStruct(vec.Typ, fs)}
	}
	a, c = x.unify(a, c)
	switch n.Op {
	case "==", "!=":
		var eq *smt.Term
		if isNilConst(a) || isNilConst(c) {
			o := a
			if isNilConst(a) {
				o = c
			}
			eq = x.isNil(o)
		} else if isUntyped(a) {
			eq = x.b.Eq(a.T, c.T)
		} else {
			eq = x.goEq(a.Typ, x.asTerm(a), x.asTerm(c))
		}
		if n.Op == "!=" {
			eq = x.b.Not(eq)
		}
		return &Val{Typ: boolT, T: eq}
	case "<", "<=", ">", ">=":
		if isFloat(a.Typ) {
			return &Val{Typ: boolT, T: x.fCmp(n.Op, a.T, c.T)}
		}
		return &Val{Typ: boolT, T: x.b.Cmp(n.Op, a.T, c.T)}
	case "+", "-", "*", "/", "%":
		if isFloat(a.Typ) {
			if n.Op == "%" {
				cfail("%% on floats")
			}
			return &Val{Typ: a.Typ, T: x.fArith(n.Op, a.T, c.T)}
		}
		if a.Typ == untypedFloat {
			switch n.Op {
			case "+":
				return &Val{Typ: untypedFloat, T: x.b.Add(a.T, c.T)}
			case "-":
				return &Val{Typ: untypedFloat, T: x.b.Sub(a.T, c.T)}
			case "*":
				return &Val{Typ: untypedFloat, T: x.b.Mul(a.T, c.T)}
			case "/":
				return &Val{Typ: untypedFloat, T: x.b.RDiv(a.T, c.T)}
			}
		}
		if isStructLike(a.Typ) {
			return x.vecArith(ce, n.Op, a, c)
		}
		switch n.Op {
		case "+":
			return &Val{Typ: a.Typ, T: x.b.Add(a.T, c.T)}
		case "-":
			return &Val{Typ: a.Typ, T: x.b.Sub(a.T, c.T)}
		case "*":
			return &Val{Typ: a.Typ, T: x.b.Mul(a.T, c.T)}
		case "/":
			return &Val{Typ: a.Typ, T: x.goDiv(a.T, c.T)}
		case "%":
			return &Val{Typ: a.Typ, T: x.goRem(a.T, c.T)}
		}
	case "<<":
		if c.T.IntV != nil {
			return &Val{Typ: a.Typ, T: x.b.Mul(a.T, x.b.IntBig(new(big.Int).Lsh(big.NewInt(1), uint(c.T.IntV.Int64()))))}
		}
	case ">>":
		if c.T.IntV != nil {
			return &Val{Typ: a.Typ, T: x.b.App("div", "Int", a.T, x.b.IntBig(new(big.Int).Lsh(big.NewInt(1), uint(c.T.IntV.Int64()))))}
		}
	case "&":
		return &Val{Typ: a.Typ, T: x.bitAnd(a.T, c.T)}
	case "|":
		return &Val{Typ: a.Typ, T: x.bitOr(a.T, c.T)}
	}
	cfail("unsupported binary operator %s", n.Op)
	return nil
}

func isStructLike(t types.Type) bool {
	if t == nil {
		return false
	}
	_, ok := t.Underlying().(*types.Struct)
	return ok
}

// vecArith: componentwise + and - on structs of floats (Coord types).
func (x *Exec) vecArith(ce *CEnv, op string, a, c *Val) *Val {
	if op != "+" && op != "-" {
		cfail("operator %s on struct values", op)
	}
	si := x.so.StructInfo(a.Typ)
	fs := make([]*smt.Term, len(si.Fields))
	for i := range fs {
		if !isFloat(si.FTypes[i]) {
			cfail("vector arithmetic on non-float field")
		}
		fs[i] = x.fArith(op, x.fieldOf(a.T, a.Typ, i), x.fieldOf(c.T, c.Typ, i))
	}
	return &Val{Typ: a.Typ, T: x.mkStruct(a.Typ, fs)}
}

func (x *Exec) evalSel(ce *CEnv, n *ESel) *Val {
	// package-qualified identifiers
	if id, ok := n.X.(*EIdent); ok {
		if _, isVar := ce.vars[id.Name]; !isVar {
			if _, isB := ce.bound[id.Name]; !isB {
				if _, isL := ce.lets[id.Name]; !isL {
					if p := x.prog.importedPkg(x.pkgOf(ce), id.Name); p != nil {
						obj := p.Pkg.Scope().Lookup(n.Sel)
						if cst, ok := obj.(*types.Const); ok {
							return x.constVal(defaultType(cst.Type()), cst.Val())
						}
						cfail("package member %s.%s is not a constant", id.Name, n.Sel)
					}
				}
			}
		}
	}
	v := x.eval(ce, n.X)
	// tuple index
	if v.Tup != nil {
		k, err := strconv.Atoi(n.Sel)
		if err != nil || k < 0 || k >= len(v.Tup) {
			cfail("bad tuple selector .%s", n.Sel)
		}
		return v.Tup[k]
	}
	return x.fieldSel(ce, v, n.Sel)
}

func (x *Exec) fieldSel(ce *CEnv, v *Val, name string) *Val {
	t := v.Typ
	// auto-deref pointers
	if pt, ok := t.Underlying().(*types.Pointer); ok {
		loc := x.derefLoc(nil, nil, v)
		v = &Val{Typ: pt.Elem(), T: x.loadLoc(ce.st, loc)}
		t = pt.Elem()
	}
	st, ok := t.Underlying().(*types.Struct)
	if !ok {
		cfail("selector .%s on non-struct %s", name, t)
	}
	for i := 0; i < st.NumFields(); i++ {
		f := st.Field(i)
		if f.Name() == name {
			return &Val{Typ: f.Type(), T: x.fieldOf(x.asTerm(v), t, i)}
		}
	}
	// embedded fields
	for i := 0; i < st.NumFields(); i++ {
		f := st.Field(i)
		if f.Embedded() {
			inner := &Val{Typ: f.Type(), T: x.fieldOf(x.asTerm(v), t, i)}
			func() {
				defer func() { recover() }()
				if r := x.fieldSel(ce, inner, name); r != nil {
					v = r
					ok = false
				}
			}()
			if !ok {
				return v
			}
		}
	}
	cfail("no field %s in %s", name, t)
	return nil
}

func (x *Exec) evalIndex(ce *CEnv, n *EIndex) *Val {
	base := x.eval(ce, n.X)
	idx := x.coerce(x.eval(ce, n.I), intT)
	if base.Tup != nil {
		if idx.T.IntV == nil {
			cfail("tuple index must be constant")
		}
		return base.Tup[idx.T.IntV.Int64()]
	}
	switch u := base.Typ.Underlying().(type) {
	case *types.Slice:
		s := x.asTerm(base)
		loc := &Loc{SliceR: x.sRef(s), SliceO: x.sOff(s), SliceI: idx.T, RootTyp: u.Elem(), Typ: u.Elem()}
		return &Val{Typ: u.Elem(), T: x.loadLoc(ce.st, loc)}
	case *types.Array:
		return &Val{Typ: u.Elem(), T: x.elemOf(x.asTerm(base), base.Typ, idx.T)}
	case *types.Pointer:
		if at, ok := u.Elem().Underlying().(*types.Array); ok {
			loc := x.derefLoc(nil, nil, base)
			arr := x.loadLoc(ce.st, loc)
			return &Val{Typ: at.Elem(), T: x.elemOf(arr, u.Elem(), idx.T)}
		}
	case *types.Basic:
		if isString(base.Typ) {
			return &Val{Typ: types.Typ[types.Uint8], T: x.b.App("strat", "Int", x.asTerm(base), idx.T)}
		}
	case *types.Map:
		key, inner, opt := x.mapHeap(u)
		k := x.coerce(x.eval(ce, n.I), u.Key())
		cell := x.sel(x.sel(x.getHeap(ce.st, key), x.asTerm(base), inner), x.asTerm(k), opt)
		present := x.b.App("(_ is some_"+opt+")", "Bool", cell)
		return &Val{Typ: u.Elem(), T: x.b.Ite(present, x.b.App("val_"+opt, x.so.SortOf(u.Elem()), cell), x.zeroTerm(u.Elem()))}
	}
	cfail("cannot index %s", base.Typ)
	return nil
}

func (x *Exec) evalCall(ce *CEnv, n *ECall) *Val {
	if id, ok := n.Fun.(*EIdent); ok {
		if r, ok := x.evalBuiltinSpec(ce, id.Name, n.Args); ok {
			return r
		}
		if sp := x.prog.Contracts.Specs[id.Name]; sp != nil {
			return x.evalSpecCall(ce, sp, n.Args)
		}
		// function-valued variable: pure application
		if fv := x.lookupVarOnly(ce, id.Name); fv != nil {
			if sig, ok := fv.Typ.Underlying().(*types.Signature); ok {
				var args []*Val
				for i, a := range n.Args {
					args = append(args, x.coerce(x.eval(ce, a), sig.Params().At(i).Type()))
				}
				ft := x.asTerm(fv)
				if cl, ok := x.closures[ft.ID]; ok {
					return x.specInlineClosure(ce, cl, args)
				}
				return x.applyFuncValue(ft, sig, args)
			}
		}
		// Go function of the current package, or conversion
		if pkg := x.pkgOf(ce); pkg != nil {
			if f := pkg.Func(id.Name); f != nil {
				var args []*Val
				for i, a := range n.Args {
					args = append(args, x.convArg(x.eval(ce, a), f.Signature.Params().At(i).Type()))
				}
				return x.specInline(ce, f, args)
			}
			if tn, ok := pkg.Pkg.Scope().Lookup(id.Name).(*types.TypeName); ok && len(n.Args) == 1 {
				v := x.coerce(x.eval(ce, n.Args[0]), tn.Type())
				if x.so.SortOf(v.Typ) == x.so.SortOf(tn.Type()) {
					nv := *v
					nv.Typ = tn.Type()
					return &nv
				}
				return v
			}
		}
		cfail("unknown function %s", id.Name)
	}
	if sel, ok := n.Fun.(*ESel); ok {
		// package function?
		if id, ok := sel.X.(*EIdent); ok {
			_, isVar := ce.vars[id.Name]
			_, isB := ce.bound[id.Name]
			_, isL := ce.lets[id.Name]
			if !isVar && !isB && !isL && !strings.HasPrefix(id.Name, "$") {
				if p := x.prog.importedPkg(x.pkgOf(ce), id.Name); p != nil {
					f := p.Func(sel.Sel)
					if f == nil {
						cfail("no function %s.%s", id.Name, sel.Sel)
					}
					var args []*Val
					for i, a := range n.Args {
						args = append(args, x.convArg(x.eval(ce, a), f.Signature.Params().At(i).Type()))
					}
					return x.specInline(ce, f, args)
				}
			}
		}
		recv := x.eval(ce, sel.X)
		return x.evalMethodCall(ce, recv, sel.Sel, n.Args)
	}
	// call of a function-valued expression, e.g. c.Caster(w, h)(x, y)
	fv := x.eval(ce, n.Fun)
	if fv != nil {
		if sig, ok := fv.Typ.Underlying().(*types.Signature); ok {
			var args []*Val
			for i, a := range n.Args {
				args = append(args, x.coerce(x.eval(ce, a), sig.Params().At(i).Type()))
			}
			if fv.Fn != nil {
				return x.specInlineClosure(ce, fv, args)
			}
			ft := x.asTerm(fv)
			if cl, ok := x.closures[ft.ID]; ok {
				return x.specInlineClosure(ce, cl, args)
			}
			return x.applyFuncValue(ft, sig, args)
		}
	}
	cfail("unsupported call form")
	return nil
}

func (x *Exec) evalMethodCall(ce *CEnv, recv *Val, name string, argEs []Expr) *Val {
	t := recv.Typ
	if it, ok := t.Underlying().(*types.Interface); ok {
		if f, rv := x.devirt(recv, name); f != nil {
			args := []*Val{rv}
			for k, a := range argEs {
				args = append(args, x.convArg(x.eval(ce, a), f.Signature.Params().At(k).Type()))
			}
			return x.specInline(ce, f, args)
		}
		for i := 0; i < it.NumMethods(); i++ {
			m := it.Method(i)
			if m.Name() == name {
				sig := m.Type().(*types.Signature)
				var args []*Val
				for k, a := range argEs {
					args = append(args, x.convArg(x.eval(ce, a), sig.Params().At(k).Type()))
				}
				key := normalizeFuncName(m.FullName())
				res := x.pureInvoke(key, x.asTerm(recv), m, args, sig.Results())
				// ground instance of the method contract for this application
				if _, mc := x.prog.ifaceMethod(m); mc != nil && ce.depth < 2 && res != nil {
					rt := res.T
					if rt == nil && len(res.Tup) > 0 {
						rt = res.Tup[0].T
					}
					ikey := fmt.Sprintf("ifinst:%d:%d", rt.ID, ce.guardID())
					if !rt.Bound && !x.ufDecl[ikey] {
						x.ufDecl[ikey] = true
						vars := map[string]*Val{"self": recv}
						for k := 0; k < sig.Params().Len(); k++ {
							vars[sig.Params().At(k).Name()] = args[k]
						}
						ce2 := &CEnv{x: x, st: ce.st, old: ce.st, vars: vars, guard: ce.guard, fc: mc, depth: ce.depth + 1, pkg: x.prog.pkgOfFile(mc.File), fr: ce.fr}
						x.bindResults(ce2, sig, res)
						for _, e := range mc.Ensures {
							x.assume(ce.guard, x.evalBool(ce2, e))
						}
					}
				}
				return res
			}
		}
		cfail("interface %s has no method %s", t, name)
	}
	// concrete method
	ms := x.prog.SSA.MethodSets.MethodSet(t)
	selc := ms.Lookup(nil, name)
	var lpkg *types.Package
	if pkg := x.pkgOf(ce); pkg != nil {
		lpkg = pkg.Pkg
	}
	if nt, ok := t.(*types.Named); ok && nt.Obj().Pkg() != nil {
		lpkg = nt.Obj().Pkg()
	} else if pt, ok := t.(*types.Pointer); ok {
		if nt, ok := pt.Elem().(*types.Named); ok && nt.Obj().Pkg() != nil {
			lpkg = nt.Obj().Pkg()
		}
	}
	if selc == nil && lpkg != nil {
		selc = ms.Lookup(lpkg, name)
	}
	if selc == nil {
		if _, isPtr := t.Underlying().(*types.Pointer); !isPtr {
			ms = x.prog.SSA.MethodSets.MethodSet(types.NewPointer(t))
			selc = ms.Lookup(nil, name)
			if selc == nil && lpkg != nil {
				selc = ms.Lookup(lpkg, name)
			}
		}
	}
	if selc == nil {
		cfail("type %s has no method %s", t, name)
	}
	f := x.prog.SSA.MethodValue(selc)
	if f == nil {
		cfail("no SSA function for method %s.%s", t, name)
	}
	args := []*Val{recv}
	sig := f.Signature
	for k, a := range argEs {
		args = append(args, x.convArg(x.eval(ce, a), sig.Params().At(k).Type()))
	}
	return x.specInline(ce, f, args)
}

// specInline evaluates a Go function symbolically inside a specification.
func (x *Exec) specInline(ce *CEnv, f *ssa.Function, args []*Val) *Val {
	name := fnKey(f)
	guard := ce.guard
	if guard == nil {
		guard = x.b.True
	}
	fr := ce.fr
	if fr == nil {
		fr = &Frame{fn: f, cells: map[*ssa.Alloc]*cellKey{}}
	}
	bc := &blockCtx{fr: &Frame{fn: fr.fn, act: fr.act, prefix: "spec/", cells: fr.cells, depth: 1, safety: false}, reach: guard, st: ce.st.clone(), env: newEnv(nil)}
	x.spec++
	defer func() {
		x.spec--
		// allocations and writes made by the specification-level call stay
		// visible to the rest of this specification (ghost execution)
		ce.st = bc.st
	}()
	if r, ok := x.modelCall(bc, nil, name, f, args); ok {
		return r
	}
	if x.isOpaque(name) {
		return x.pureFuncApp(ce, f, &FuncContract{Name: name}, args)
	}
	if fc := x.prog.Contracts.Funcs[name]; fc != nil && !fc.Inline && fc.Pure && !(x.rootC != nil && x.rootC.InlineCallees[name]) {
		// pure function with contract inside a spec: uninterpreted application + ensures
		return x.pureFuncApp(ce, f, fc, args)
	}
	if len(f.Blocks) == 0 {
		cfail("function %s has no body and no model", name)
	}
	if x.onStack(f) {
		cfail("recursive use of %s in a specification", name)
	}
	return x.inlineCall(bc, nil, f, nil, args)
}

// isOpaque: `opt opaque f g ...` on a lemma treats the named (side-effect free)
// functions as uninterpreted functions of their arguments inside that lemma, so
// that facts about them come only from the lemmas it `use`s - equational
// reasoning over lemma instances instead of unfolding large arithmetic bodies.
func (x *Exec) isOpaque(name string) bool {
	if x.rootC == nil || x.rootC.Opts["opaque"] == "" {
		return false
	}
	for _, n := range strings.Fields(x.rootC.Opts["opaque"]) {
		if normalizeFuncName(n) == name {
			return true
		}
	}
	return false
}

// pureFuncApp: an uninterpreted function symbol for a pure Go function.
func (x *Exec) pureFuncApp(ce *CEnv, f *ssa.Function, fc *FuncContract, args []*Val) *Val {
	name := "pf_" + smt.Sanitize(fnKey(f))
	var sorts []string
	var terms []*smt.Term
	for _, a := range args {
		t := x.asTerm(a)
		sorts = append(sorts, t.Sort)
		terms = append(terms, t)
	}
	res := f.Signature.Results()
	if res.Len() == 0 {
		cfail("pure function %s has no result", fnKey(f))
	}
	var out *Val
	if res.Len() == 1 {
		rs := x.so.SortOf(res.At(0).Type())
		x.declareUF(name, sorts, rs)
		out = &Val{Typ: res.At(0).Type(), T: x.b.App(name, rs, terms...)}
	} else {
		out = &Val{Typ: res}
		for i := 0; i < res.Len(); i++ {
			rs := x.so.SortOf(res.At(i).Type())
			nm := fmt.Sprintf("%s_r%d", name, i)
			x.declareUF(nm, sorts, rs)
			out.Tup = append(out.Tup, &Val{Typ: res.At(i).Type(), T: x.b.App(nm, rs, terms...)})
		}
	}
	outT := out.T
	if outT == nil {
		outT = out.Tup[0].T
	}
	// instantiate the callee's contract for this application: requires ==> ensures
	if ce.depth < 3 && !outT.Bound {
		gid := 0
		if ce.guard != nil {
			gid = ce.guard.ID
		}
		key := fmt.Sprintf("pfapp:%d:%d", outT.ID, gid)
		if !x.ufDecl[key] {
			x.ufDecl[key] = true
			vars := map[string]*Val{}
			for i, p := range f.Params {
				vars[p.Name()] = args[i]
			}
			ce2 := &CEnv{x: x, st: ce.st, old: ce.st, vars: vars, guard: ce.guard, fc: fc, depth: ce.depth + 1, pkg: fnPkg(f), hypo: true}
			x.evalLets(ce2, fc)
			var pre []*smt.Term
			for _, r := range fc.Requires {
				pre = append(pre, x.evalBool(ce2, r))
			}
			x.bindResults(ce2, f.Signature, out)
			for _, e := range fc.Ensures {
				x.assume(ce.guard, x.b.Implies(x.b.And(pre...), x.evalBool(ce2, e)))
			}
		}
	}
	return out
}

func (x *Exec) evalSpecCall(ce *CEnv, sp *FuncContract, argEs []Expr) *Val {
	if len(argEs) != len(sp.Params) {
		cfail("spec %s expects %d arguments", sp.Name, len(sp.Params))
	}
	if ce.depth > 40 {
		cfail("spec expansion too deep (recursive spec?) at %s", sp.Name)
	}
	if sp.Body == nil {
		cfail("spec %s has no body", sp.Name)
	}
	vars := map[string]*Val{}
	for i, p := range sp.Params {
		v := x.eval(ce, argEs[i])
		if pt := x.prog.resolveType(x.specPkg(ce, sp), p.Type); pt != nil {
			v = x.coerce(v, pt)
		}
		vars[p.Name] = v
	}
	n := *ce
	n.vars = vars
	n.lets = nil
	n.depth = ce.depth + 1
	n.pkg = x.specPkg(ce, sp)
	// a spec body is closed: it sees its parameters only (an enclosing
	// quantifier's variable of the same name must not capture a parameter)
	n.bound = nil
	r := x.eval(&n, sp.Body.E)
	if sp.RetType != "" {
		if rt := x.prog.resolveType(n.pkg, sp.RetType); rt != nil {
			r = x.coerce(r, rt)
		}
	}
	return r
}

func (x *Exec) specPkg(ce *CEnv, sp *FuncContract) *ssa.Package {
	if p := x.prog.pkgOfFile(sp.File); p != nil {
		return p
	}
	return x.pkgOf(ce)
}

// evalBuiltinSpec handles specification builtins.
func (x *Exec) evalBuiltinSpec(ce *CEnv, name string, args []Expr) (*Val, bool) {
	switch name {
	case "old":
		if ce.old == nil {
			cfail("old() not available here")
		}
		return x.eval(ce.withState(ce.old), args[0]), true
	case "len":
		v := x.eval(ce, args[0])
		switch u := v.Typ.Underlying().(type) {
		case *types.Slice:
			return &Val{Typ: intT, T: x.sLen(x.asTerm(v))}, true
		case *types.Array:
			return &Val{Typ: intT, T: x.b.Int(u.Len())}, true
		case *types.Basic:
			return &Val{Typ: intT, T: x.b.App("strlen", "Int", x.asTerm(v))}, true
		case *types.Map:
			x.heapSorts["HMlen"] = "(Array Int Int)"
			return &Val{Typ: intT, T: x.sel(x.getHeap(ce.st, "HMlen"), x.asTerm(v), "Int")}, true
		case *types.Pointer:
			if at, ok := u.Elem().Underlying().(*types.Array); ok {
				return &Val{Typ: intT, T: x.b.Int(at.Len())}, true
			}
		}
		cfail("len of %s", v.Typ)
	case "cap":
		v := x.eval(ce, args[0])
		return &Val{Typ: intT, T: x.sCap(x.asTerm(v))}, true
	case "forall", "exists":
		return x.evalQuant(ce, name, args), true
	case "sum":
		return x.evalSum(ce, args), true
	case "goconst":
		// goconst("expr"): a Go constant expression evaluated by go/types in the scope of
		// the contract's package, exactly as the compiler folds it (untyped constant
		// arithmetic is exact; rounding happens once, on conversion to the typed value)
		str, ok := args[0].(*EString)
		if len(args) != 1 || !ok {
			cfail("goconst(\"expr\") expected")
		}
		pkg := x.pkgOf(ce)
		if pkg == nil {
			cfail("goconst: no package")
		}
		tv, err := types.Eval(x.prog.Fset, pkg.Pkg, token.NoPos, str.V)
		if err != nil || tv.Value == nil {
			cfail("goconst(%s): not a constant expression (%v)", str.V, err)
		}
		return x.constVal(defaultType(tv.Type), tv.Value), true
	case "lastcall":
		// lastcall("callee"): the value returned by the one call of callee in the body of
		// the function under contract (meaningful on paths through that call)
		str, ok := args[0].(*EString)
		if len(args) != 1 || !ok {
			cfail("lastcall(\"callee\") expected")
		}
		if ce.fc != nil && x.rootC != nil && ce.fc != x.rootC {
			// inside a callee's contract used at a call site: the value its body drew is
			// not visible to the caller - some value of the result type (existential)
			f := x.prog.Funcs[normalizeFuncName(str.V)]
			if f == nil || f.Signature.Results().Len() != 1 {
				cfail("lastcall(%s): unknown function or not single-valued", str.V)
			}
			return x.havoc(f.Signature.Results().At(0).Type(), "lastcall", ce.guard), true
		}
		m := x.callRes[normalizeFuncName(str.V)]
		if len(m) != 1 {
			cfail("lastcall(%s): the function under contract has %d calls of it so far (exactly one is required)", str.V, len(m))
		}
		for _, v := range m {
			return v, true
		}
	case "loopentry":
		// loopentry(v): the value header phi v of the enclosing loop had when the loop was entered
		id, ok := args[0].(*EIdent)
		if len(args) != 1 || !ok {
			cfail("loopentry(v) takes the name of a loop-carried variable")
		}
		if ce.loop == nil {
			// in a block the loop exits through (e.g. a return inside the loop body):
			// the variable's loop is found by name; meaningful only on paths that entered it
			var hit *Val
			n := 0
			if ce.fr != nil && ce.fr.loops != nil {
				for _, l := range ce.fr.loops.loops {
					for _, in := range l.header.Instrs {
						phi, ok := in.(*ssa.Phi)
						if !ok {
							break
						}
						if phiName(phi) == id.Name {
							if v := x.loopEntry[l][phi]; v != nil {
								hit = v
								n++
							}
						}
					}
				}
			}
			if n == 1 {
				return hit, true
			}
			if n == 0 {
				return x.evalIdent(ce, id.Name), true
			}
			cfail("loopentry(%s) outside a loop: %d candidate loops", id.Name, n)
		}
		for l := ce.loop; l != nil; l = l.parent {
			for _, in := range l.header.Instrs {
				phi, ok := in.(*ssa.Phi)
				if !ok {
					break
				}
				if phiName(phi) == id.Name {
					if v := x.loopEntry[l][phi]; v != nil {
						return v, true
					}
					cfail("loopentry(%s): the loop has no invariant (unrolled loops have no entry snapshot)", id.Name)
				}
			}
		}
		// not loop-carried: the loop does not change it, its entry value is its value
		return x.evalIdent(ce, id.Name), true
	case "abs":
		v := x.eval(ce, args[0])
		if isFloat(v.Typ) {
			return &Val{Typ: v.Typ, T: x.mathAbs(v.T)}, true
		}
		if v.Typ == untypedFloat || v.Typ == untypedInt {
			cfail("abs of constant")
		}
		return &Val{Typ: v.Typ, T: x.b.Ite(x.b.Cmp(">=", v.T, x.b.Int(0)), v.T, x.b.Neg(v.T))}, true
	case "min", "max":
		a := x.eval(ce, args[0])
		c := x.eval(ce, args[1])
		a, c = x.unify(a, c)
		var lt *smt.Term
		if isFloat(a.Typ) {
			lt = x.fCmp("<", a.T, c.T)
		} else {
			lt = x.b.Cmp("<", a.T, c.T)
		}
		if name == "max" {
			return &Val{Typ: a.Typ, T: x.b.Ite(lt, c.T, a.T)}, true
		}
		return &Val{Typ: a.Typ, T: x.b.Ite(lt, a.T, c.T)}, true
	case "sq":
		v := x.eval(ce, args[0])
		if isFloat(v.Typ) {
			return &Val{Typ: v.Typ, T: x.fArith("*", v.T, v.T)}, true
		}
		return &Val{Typ: v.Typ, T: x.b.Mul(v.T, v.T)}, true
	case "sqrt":
		v := x.coerce(x.eval(ce, args[0]), float64T)
		return &Val{Typ: float64T, T: x.mathSqrt(ce.guard, v.T)}, true
	case "visited", "visitcount":
		// visited(k): key k has already been yielded by the map iteration of the current loop
		if ce.loop == nil {
			cfail("visited() is only meaningful in the invariant of a loop that ranges over a map")
		}
		var rng *ssa.Range
		for b := range ce.loop.blocks {
			for _, in := range b.Instrs {
				if nx, ok := in.(*ssa.Next); ok && !nx.IsString {
					if r, ok := nx.Iter.(*ssa.Range); ok {
						if _, isMap := r.X.Type().Underlying().(*types.Map); isMap {
							rng = r
						}
					}
				}
			}
		}
		if rng == nil {
			cfail("visited(): the current loop does not range over a map")
		}
		mt := rng.X.Type().Underlying().(*types.Map)
		if name == "visitcount" {
			vk := x.visitKey(rng, mt)
			x.heapSorts[vk+"_n"] = "Int"
			return &Val{Typ: intT, T: x.getHeap(ce.st, vk+"_n")}, true
		}
		k := x.coerce(x.eval(ce, args[0]), mt.Key())
		return &Val{Typ: boolT, T: x.sel(x.getHeap(ce.st, x.visitKey(rng, mt)), x.asTerm(k), "Bool")}, true
	case "pow2":
		// pow2(e) for integer e >= 0: uninterpreted, with the defining facts
		// instantiated at this argument (pow2(0)=1, pow2(e+1)=2*pow2(e), pow2(e)>=1)
		v := x.coerce(x.eval(ce, args[0]), intT)
		x.declareUF("pow2", []string{"Int"}, "Int")
		x.pow2Axioms()
		app := x.b.App("pow2", "Int", v.T)
		if !v.T.Bound {
			k := "pow2inst:" + fmt.Sprint(v.T.ID)
			if !x.ufDecl[k] {
				x.ufDecl[k] = true
				x.axiom(x.b.Implies(x.b.Cmp(">=", v.T, x.b.Int(0)), x.b.And(x.b.Cmp(">=", app, x.b.Int(1)),
					x.b.Eq(x.b.App("pow2", "Int", x.b.Add(v.T, x.b.Int(1))), x.b.Mul(x.b.Int(2), app)))))
			}
		}
		return &Val{Typ: intT, T: app}, true
	case "calls":
		v := x.eval(ce, args[0])
		x.heapSorts["G_calls"] = "(Array Int Int)"
		return &Val{Typ: intT, T: x.sel(x.getHeap(ce.st, "G_calls"), x.asTerm(v), "Int")}, true
	case "float", "float64", "real":
		v := x.eval(ce, args[0])
		if isUntyped(v) {
			return x.coerce(v, float64T), true
		}
		if isInteger(v.Typ) {
			return x.convert(&blockCtx{reach: ce.guard, st: ce.st}, v, v.Typ, float64T), true
		}
		return v, true
	case "int":
		v := x.eval(ce, args[0])
		if isUntyped(v) {
			return x.coerce(v, intT), true
		}
		if isFloat(v.Typ) {
			return x.convert(&blockCtx{reach: ce.guard, st: ce.st}, v, v.Typ, intT), true
		}
		nv := *v
		nv.Typ = intT
		return &nv, true
	case "isnil":
		v := x.eval(ce, args[0])
		return &Val{Typ: boolT, T: x.isNil(v)}, true
	case "allocated":
		// allocated(p): the reference held by a pointer, map, channel or slice was
		// allocated before this state (it lies below the allocation watermark), so it
		// differs from everything allocated later.
		v := x.eval(ce, args[0])
		if _, ok := x.heapSorts["G_alloc"]; !ok {
			x.heapSorts["G_alloc"] = "Int"
		}
		wm := x.getHeap(ce.st, "G_alloc")
		switch v.Typ.Underlying().(type) {
		case *types.Pointer, *types.Map, *types.Chan:
			return &Val{Typ: boolT, T: x.b.Cmp("<", x.asTerm(v), wm)}, true
		case *types.Slice:
			return &Val{Typ: boolT, T: x.b.Cmp("<", x.sRef(x.asTerm(v)), wm)}, true
		}
		cfail("allocated() needs a pointer, map, channel or slice")
	case "sameArray":
		// sameArray(s1, s2): the two slices share their backing array
		a := x.eval(ce, args[0])
		c := x.eval(ce, args[1])
		if _, ok := a.Typ.Underlying().(*types.Slice); !ok {
			cfail("sameArray() needs slices")
		}
		if _, ok := c.Typ.Underlying().(*types.Slice); !ok {
			cfail("sameArray() needs slices")
		}
		return &Val{Typ: boolT, T: x.b.Eq(x.sRef(x.asTerm(a)), x.sRef(x.asTerm(c)))}, true
	case "fresh":
		// fresh(p): the reference p holds now was allocated after the old state
		// (function entry, or loop entry inside old()): it lies at or above the old
		// allocation watermark and below the current one.
		v := x.eval(ce, args[0])
		if _, ok := x.heapSorts["G_alloc"]; !ok {
			x.heapSorts["G_alloc"] = "Int"
		}
		ost := ce.old
		if ost == nil {
			ost = ce.st
		}
		wm0 := x.getHeap(ost, "G_alloc")
		wm1 := x.getHeap(ce.st, "G_alloc")
		var r *smt.Term
		switch v.Typ.Underlying().(type) {
		case *types.Pointer, *types.Map, *types.Chan:
			r = x.asTerm(v)
		case *types.Slice:
			r = x.sRef(x.asTerm(v))
		default:
			cfail("fresh() needs a pointer, map, channel or slice")
		}
		return &Val{Typ: boolT, T: x.b.And(x.b.Cmp(">=", r, wm0), x.b.Cmp("<", r, wm1))}, true
	case "has":
		m := x.eval(ce, args[0])
		mt, ok := m.Typ.Underlying().(*types.Map)
		if !ok {
			cfail("has() needs a map")
		}
		key, inner, opt := x.mapHeap(mt)
		k := x.coerce(x.eval(ce, args[1]), mt.Key())
		cell := x.sel(x.sel(x.getHeap(ce.st, key), x.asTerm(m), inner), x.asTerm(k), opt)
		return &Val{Typ: boolT, T: x.b.And(x.b.Not(x.b.Eq(x.asTerm(m), x.b.Int(0))), x.b.App("(_ is some_"+opt+")", "Bool", cell))}, true
	case "isNaN":
		v := x.eval(ce, args[0])
		return &Val{Typ: boolT, T: x.fIsNaN(v.T)}, true
	case "isInf":
		v := x.eval(ce, args[0])
		return &Val{Typ: boolT, T: x.fIsInf(v.T)}, true
	case "finite":
		v := x.eval(ce, args[0])
		return &Val{Typ: boolT, T: x.b.Not(x.b.Or(x.fIsNaN(v.T), x.fIsInf(v.T)))}, true
	case "ite":
		c := x.eval(ce, args[0])
		a := x.eval(ce, args[1])
		b := x.eval(ce, args[2])
		a, b = x.unify(a, b)
		return x.iteVal(c.T, a, b), true
	case "isint":
		// isint(e): the real e is an integer
		v := x.coerce(x.eval(ce, args[0]), float64T)
		if x.fp {
			cfail("isint needs the real model")
		}
		ti := x.b.App("to_int", "Int", v.T)
		base := x.b.Eq(x.b.App("to_real", "Real", ti), v.T)
		// Equivalent disjuncts that name explicit integer witnesses (the integers
		// already in scope, their sums/differences, +-1): each implies `base`, so
		// the disjunction is equivalent to it, but it spares the solver the
		// integrality search.
		ds := []*smt.Term{base}
		if ce.hypo && !v.T.Bound {
			x.intWitnesses = append(x.intWitnesses, ti)
		} else if !v.T.Bound {
			ws := x.intWitnesses
			if len(ws) <= 4 {
				var cands []*smt.Term
				for i, w := range ws {
					cands = append(cands, w)
					for j := 0; j < i; j++ {
						cands = append(cands, x.b.Sub(w, ws[j]), x.b.Add(w, ws[j]))
					}
				}
				for _, c := range cands {
					for _, off := range []int64{0, 1, -1} {
						cc := x.b.Add(c, x.b.Int(off))
						ds = append(ds, x.b.Eq(v.T, x.b.App("to_real", "Real", cc)), x.b.Eq(v.T, x.b.Neg(x.b.App("to_real", "Real", cc))))
					}
				}
			}
			x.intWitnesses = append(x.intWitnesses, ti)
		}
		return &Val{Typ: boolT, T: x.b.Or(ds...)}, true
	case "ghost":
		id, ok := args[0].(*EIdent)
		if !ok {
			cfail("ghost(name)")
		}
		k := "G_" + id.Name
		x.registerGhost(k)
		return &Val{Typ: intT, T: x.getHeap(ce.st, k)}, true
	case "gconst":
		// gconst(name): a fixed but arbitrary integer (the same in every state): used
		// to follow one arbitrary element (a cell, a pixel) through a computation
		id, ok := args[0].(*EIdent)
		if !ok {
			cfail("gconst(name)")
		}
		return &Val{Typ: intT, T: x.b.Const("GC_"+id.Name, "Int")}, true
	case "upred":
		// upred("name", args...): an uninterpreted predicate (used by trusted contracts to
		// pass facts between library functions, e.g. "the string has a non-space character")
		ns, ok := args[0].(*EString)
		if !ok {
			cfail("upred needs a string literal name")
		}
		var sorts []string
		var ts []*smt.Term
		for _, a := range args[1:] {
			t := x.asTerm(x.eval(ce, a))
			sorts = append(sorts, t.Sort)
			ts = append(ts, t)
		}
		name := "upred_" + smt.Sanitize(ns.V)
		x.declareUF(name, sorts, "Bool")
		return &Val{Typ: boolT, T: x.b.App(name, "Bool", ts...)}, true
	case "same":
		// same(a, b): structural (bit-for-bit) equality, unlike Go's == on floats
		a := x.eval(ce, args[0])
		c := x.eval(ce, args[1])
		a, c = x.unify(a, c)
		return &Val{Typ: boolT, T: x.b.Eq(x.asTerm(a), x.asTerm(c))}, true
	case "gsel":
		// gsel(name, i): element i of the ghost integer array GA_name
		id, ok := args[0].(*EIdent)
		if !ok {
			cfail("gsel(name, index)")
		}
		k := "GA_" + id.Name
		x.registerGhost(k)
		idx := x.coerce(x.eval(ce, args[1]), intT)
		return &Val{Typ: intT, T: x.sel(x.getHeap(ce.st, k), idx.T, "Int")}, true
	case "asiface":
		// asiface(p): the interface value holding pointer p (dynamic type = p's static type)
		v := x.eval(ce, args[0])
		return x.makeInterface(v, v.Typ, types.NewInterfaceType(nil, nil)), true
	case "as":
		// as(v, "T"): type assertion without check (value extraction)
		v := x.eval(ce, args[0])
		s, ok := args[1].(*EString)
		if !ok {
			cfail("as needs a string literal type")
		}
		t := x.prog.resolveType(x.pkgOf(ce), s.V)
		if t == nil {
			cfail("cannot resolve type %s", s.V)
		}
		vt := x.asTerm(v)
		ref := x.b.App("i_ref", "Int", vt)
		if vt.Op == "mk_iface" {
			ref = vt.Args[1]
		}
		if _, isPtr := t.Underlying().(*types.Pointer); isPtr {
			return &Val{Typ: t, T: ref}, true
		}
		so := x.so.SortOf(t)
		if ref.Op == "box_"+smt.Sanitize(so) && len(ref.Args) == 1 {
			return &Val{Typ: t, T: ref.Args[0]}, true
		}
		x.declareUF("unbox_"+smt.Sanitize(so), []string{"Int"}, so)
		return &Val{Typ: t, T: x.b.App("unbox_"+smt.Sanitize(so), so, ref)}, true
	case "retype":
		// retype(v, "I"): the interface value v seen through another interface type
		// (an interface-to-interface assertion that is assumed to succeed)
		v := x.eval(ce, args[0])
		ts, ok := args[1].(*EString)
		if !ok {
			cfail("retype needs a string literal type")
		}
		t := x.prog.resolveType(x.pkgOf(ce), ts.V)
		if t == nil {
			cfail("cannot resolve type %s", ts.V)
		}
		if _, isI := t.Underlying().(*types.Interface); !isI {
			cfail("retype: %s is not an interface type", ts.V)
		}
		nv := *v
		nv.Typ = t
		return &nv, true
	case "captured":
		// captured(f, "name"): the current value of the variable `name` captured by
		// the function literal f
		v := x.eval(ce, args[0])
		sname, ok := args[1].(*EString)
		if !ok {
			cfail("captured needs a string literal variable name")
		}
		if v.Fn == nil {
			cfail("captured(): the first argument is not a function literal known at this point")
		}
		for k, fv := range v.Fn.FreeVars {
			if fv.Name() == sname.V && k < len(v.Binds) {
				pt, ok := fv.Type().(*types.Pointer)
				if !ok {
					cfail("captured(): unexpected free variable type")
				}
				loc := x.derefLoc(nil, nil, v.Binds[k])
				return &Val{Typ: pt.Elem(), T: x.loadLoc(ce.st, loc)}, true
			}
		}
		cfail("captured(): the literal does not capture %s", sname.V)
	case "typetag":
		// typetag(v): the dynamic type tag of an interface value (an integer);
		// tagof("pkg.Type"): the tag of the named type. dyntype(v, "T") is
		// typetag(v) == tagof("T").
		v := x.eval(ce, args[0])
		return &Val{Typ: intT, T: x.b.App("i_tag", "Int", x.asTerm(v))}, true
	case "tagof":
		s, ok := args[0].(*EString)
		if !ok {
			cfail("tagof needs a string literal type")
		}
		t := x.prog.resolveType(x.pkgOf(ce), s.V)
		if t == nil {
			cfail("cannot resolve type %s", s.V)
		}
		return &Val{Typ: intT, T: x.b.Int(int64(x.so.TypeTag(t)))}, true
	case "dyntype":
		// dyntype(v, "pkg.Type"): v's dynamic type tag equals that of the named type
		v := x.eval(ce, args[0])
		s, ok := args[1].(*EString)
		if !ok {
			cfail("dyntype needs a string literal type")
		}
		t := x.prog.resolveType(x.pkgOf(ce), s.V)
		if t == nil {
			cfail("cannot resolve type %s", s.V)
		}
		return &Val{Typ: boolT, T: x.b.Eq(x.b.App("i_tag", "Int", x.asTerm(v)), x.b.Int(int64(x.so.TypeTag(t))))}, true
	}
	return nil, false
}

// evalQuant: forall(i, lo, hi, body) over ints, or forall(T(v), body) over a type.
func (x *Exec) evalQuant(ce *CEnv, kind string, args []Expr) *Val {
	if len(args) == 4 {
		id, ok := args[0].(*EIdent)
		if !ok {
			cfail("%s: first argument must be an identifier", kind)
		}
		lo := x.coerce(x.eval(ce, args[1]), intT)
		hi := x.coerce(x.eval(ce, args[2]), intT)
		x.qseq++
		bv := x.b.BoundVar(fmt.Sprintf("%s!q%d", id.Name, x.qseq), "Int")
		body := x.eval(ce.withBound(id.Name, &Val{Typ: intT, T: bv}), args[3])
		rng := x.b.And(x.b.Cmp("<=", lo.T, bv), x.b.Cmp("<", bv, hi.T))
		// constant small ranges are expanded
		if lo.T.IntV != nil && hi.T.IntV != nil && hi.T.IntV.IsInt64() && lo.T.IntV.IsInt64() && hi.T.IntV.Int64()-lo.T.IntV.Int64() <= 64 {
			var parts []*smt.Term
			for k := lo.T.IntV.Int64(); k < hi.T.IntV.Int64(); k++ {
				b := x.eval(ce.withBound(id.Name, &Val{Typ: intT, T: x.b.Int(k)}), args[3])
				parts = append(parts, b.T)
			}
			if kind == "forall" {
				return &Val{Typ: boolT, T: x.b.And(parts...)}
			}
			return &Val{Typ: boolT, T: x.b.Or(parts...)}
		}
		if kind == "forall" {
			return &Val{Typ: boolT, T: x.b.Quant("forall", []*smt.Term{bv}, x.b.Implies(rng, body.T))}
		}
		return &Val{Typ: boolT, T: x.b.Quant("exists", []*smt.Term{bv}, x.b.And(rng, body.T))}
	}
	if len(args) == 2 {
		call, ok := args[0].(*ECall)
		if !ok || len(call.Args) != 1 {
			cfail("%s(T(v), body) expected", kind)
		}
		tn := exprString(call.Fun)
		id, ok := call.Args[0].(*EIdent)
		if !ok {
			cfail("%s: bound variable must be an identifier", kind)
		}
		t := x.prog.resolveType(x.pkgOf(ce), tn)
		if t == nil {
			cfail("cannot resolve type %s", tn)
		}
		x.qseq++
		bv := x.b.BoundVar(fmt.Sprintf("%s!q%d", id.Name, x.qseq), x.so.SortOf(t))
		body := x.eval(ce.withBound(id.Name, &Val{Typ: t, T: bv}), args[1])
		return &Val{Typ: boolT, T: x.b.Quant(kind, []*smt.Term{bv}, body.T)}
	}
	if len(args) == 3 {
		// forall(v, "type", body): quantification over a type given as a string
		id, ok := args[0].(*EIdent)
		ts, ok2 := args[1].(*EString)
		if !ok || !ok2 {
			cfail("%s(v, \"type\", body) expected", kind)
		}
		t := x.prog.resolveType(x.pkgOf(ce), ts.V)
		if t == nil {
			cfail("cannot resolve type %s", ts.V)
		}
		x.qseq++
		bv := x.b.BoundVar(fmt.Sprintf("%s!q%d", id.Name, x.qseq), x.so.SortOf(t))
		body := x.eval(ce.withBound(id.Name, &Val{Typ: t, T: bv}), args[2])
		return &Val{Typ: boolT, T: x.b.Quant(kind, []*smt.Term{bv}, body.T)}
	}
	cfail("%s needs (i, lo, hi, body), (T(v), body) or (v, \"T\", body)", kind)
	return nil
}

// evalSum: sum(k, lo, hi, body) is the sum of body over lo <= k < hi (0 when
// hi <= lo). It is an uninterpreted function of hi, one per (lo, body) pair,
// with its recursive definition as a quantified axiom:
//
//	S(h) = 0 for h <= lo;  S(h) = S(h-1) + body[k := h-1] for h > lo.
//
// body is evaluated in the state of the enclosing expression; the same body in
// the same state gives the same function, a different heap a different one.
func (x *Exec) evalSum(ce *CEnv, args []Expr) *Val {
	if len(args) != 4 {
		cfail("sum(k, lo, hi, body) expected")
	}
	id, ok := args[0].(*EIdent)
	if !ok {
		cfail("sum: first argument must be an identifier")
	}
	lo := x.coerce(x.eval(ce, args[1]), intT)
	hi := x.coerce(x.eval(ce, args[2]), intT)
	bv := x.b.BoundVar("k!sum", "Int")
	body := x.eval(ce.withBound(id.Name, &Val{Typ: intT, T: bv}), args[3])
	if body.T == nil {
		cfail("sum: body must be a number")
	}
	isF := isFloat(body.Typ) || body.Typ == untypedFloat
	typ := body.Typ
	if body.Typ == untypedFloat {
		typ = float64T
	} else if body.Typ == untypedInt {
		typ = intT
	}
	probe := x.b.Subst(body.T, map[string]*smt.Term{"k!sum": x.b.Int(0)})
	if probe.Bound || lo.T.Bound {
		cfail("sum: body and lower bound must not depend on an enclosing quantifier's variable (nor contain a nested sum)")
	}
	key := fmt.Sprintf("%d:%d", lo.T.ID, body.T.ID)
	if x.sumIDs == nil {
		x.sumIDs = map[string]int{}
	}
	n, ok := x.sumIDs[key]
	if !ok {
		n = len(x.sumIDs) + 1
		x.sumIDs[key] = n
	}
	name := fmt.Sprintf("sum_%d", n)
	sort := body.T.Sort
	x.declareUF(name, []string{"Int"}, sort)
	if !x.ufDecl["sumax:"+name] {
		x.ufDecl["sumax:"+name] = true
		h := x.b.BoundVar("h!sum", "Int")
		sh := x.b.App(name, sort, h)
		hm1 := x.b.Sub(h, x.b.Int(1))
		shm1 := x.b.App(name, sort, hm1)
		term := x.b.Subst(body.T, map[string]*smt.Term{"k!sum": hm1})
		var zero, step *smt.Term
		if isF {
			zero = x.constVal(float64T, constant.MakeInt64(0)).T
			step = x.fArith("+", shm1, term)
		} else {
			zero = x.b.Int(0)
			step = x.b.Add(shm1, term)
		}
		ax := x.b.Quant("forall", []*smt.Term{h}, x.b.Ite(x.b.Cmp("<=", h, lo.T), x.b.Eq(sh, zero), x.b.Eq(sh, step)), sh)
		x.axiom(ax)
		if x.keepHyp == nil {
			x.keepHyp = map[int]bool{}
		}
		x.keepHyp[ax.ID] = true
	}
	return &Val{Typ: typ, T: x.b.App(name, sort, hi.T)}
}

func exprString(e Expr) string {
	switch n := e.(type) {
	case *EIdent:
		return n.Name
	case *ESel:
		return exprString(n.X) + "." + n.Sel
	}
	return "?"
}

var _ = constant.MakeBool

func (x *Exec) lookupVarOnly(ce *CEnv, name string) *Val {
	if v, ok := ce.bound[name]; ok {
		return v
	}
	if v, ok := ce.lets[name]; ok {
		return v
	}
	if v, ok := ce.vars[name]; ok {
		return v
	}
	return nil
}

func (ce *CEnv) guardID() int {
	if ce.guard == nil {
		return 0
	}
	return ce.guard.ID
}

// specInlineClosure evaluates a known closure inside a specification.
func (x *Exec) specInlineClosure(ce *CEnv, cl *Val, args []*Val) *Val {
	guard := ce.guard
	if guard == nil {
		guard = x.b.True
	}
	fr := ce.fr
	if fr == nil {
		fr = &Frame{fn: cl.Fn, cells: map[*ssa.Alloc]*cellKey{}}
	}
	bc := &blockCtx{fr: &Frame{fn: fr.fn, act: fr.act, prefix: "spec/", cells: fr.cells, depth: 1, safety: false}, reach: guard, st: ce.st.clone(), env: newEnv(nil)}
	x.spec++
	defer func() {
		x.spec--
		ce.st = bc.st
	}()
	return x.callStatic(bc, nil, cl.Fn, cl.Binds, args)
}

// convArg adapts a specification-level argument to a parameter type: untyped
// constants are coerced, and a concrete value passed for an interface parameter
// is wrapped like Go's implicit conversion does.
func (x *Exec) convArg(v *Val, pt types.Type) *Val {
	v = x.coerce(v, pt)
	if _, isI := pt.Underlying().(*types.Interface); isI && v != nil && v.Typ != nil {
		if _, srcI := v.Typ.Underlying().(*types.Interface); !srcI && !isNilConst(v) {
			if _, isTP := v.Typ.(*types.TypeParam); !isTP {
				return x.makeInterface(v, v.Typ, pt)
			}
		}
	}
	return v
}
