package vc

import (
	"fmt"
	"go/types"
	"sort"
	"strings"

	"golang.org/x/tools/go/ssa"

	"verifengine/smt"
)

// Val is a symbolic Go value.
type Val struct {
	Typ   types.Type
	T     *smt.Term // value term
	Loc   *Loc      // address-valued (pointer tracked as a location)
	Tup   []*Val    // tuple
	Fn    *ssa.Function
	Binds []*Val // closure bindings (when Fn != nil)
}

type PathElem struct {
	Field int        // field index when Idx == nil
	Idx   *smt.Term  // array index
	Typ   types.Type // type of the container at this step
}

// Loc is a symbolic address.
type Loc struct {
	Cell    *cellKey  // local cell root
	Ref     *smt.Term // heap root (pointer value)
	SliceR  *smt.Term // slice backing root: backing ref
	SliceI  *smt.Term // index relative to SliceO (nil together with SliceO: whole heap array)
	SliceO  *smt.Term // offset into backing (nil = 0)
	RootTyp types.Type
	Path    []PathElem
	Typ     types.Type // type at the end of the path
}

// cellKey identifies one activation's local Alloc.
type cellKey struct {
	alloc *ssa.Alloc
	act   int
	name  string
}

// State is the mutable store at a program point (treated persistently: copy on write).
type State struct {
	cells map[*cellKey]*smt.Term
	heaps map[string]*smt.Term
}

func newState() *State {
	return &State{cells: map[*cellKey]*smt.Term{}, heaps: map[string]*smt.Term{}}
}

func (s *State) clone() *State {
	n := newState()
	for k, v := range s.cells {
		n.cells[k] = v
	}
	for k, v := range s.heaps {
		n.heaps[k] = v
	}
	return n
}

// Env is a layered SSA value environment.
type Env struct {
	vals   map[ssa.Value]*Val
	parent *Env
}

func newEnv(parent *Env) *Env { return &Env{vals: map[ssa.Value]*Val{}, parent: parent} }

func (e *Env) lookup(v ssa.Value) *Val {
	for x := e; x != nil; x = x.parent {
		if r, ok := x.vals[v]; ok {
			return r
		}
	}
	return nil
}

// Edge is a control-flow edge with its condition, state and value environment.
type Edge struct {
	from *ssa.BasicBlock
	to   *ssa.BasicBlock
	cond *smt.Term
	st   *State
	env  *Env
}

// heap helpers ---------------------------------------------------------

func (x *Exec) heapSortFor(key string) string {
	return x.heapSorts[key]
}

// heapKeyPtr returns the heap name for pointers to t.
// intKind separates Go types that share the SMT sort Int but can never alias in
// memory (an []int is never an []*T or a []uint8): type-based disjointness.
func intKind(t types.Type) string {
	switch u := t.Underlying().(type) {
	case *types.Basic:
		if u.Kind() == types.Int || u.Kind() == types.UntypedInt || u.Kind() == types.UntypedNil {
			return ""
		}
		return "_" + u.Name()
	case *types.Pointer:
		return "_ptr"
	case *types.Map:
		return "_map"
	case *types.Signature:
		return "_fn"
	case *types.Chan:
		return "_chan"
	}
	return ""
}

func (x *Exec) heapKeyPtr(t types.Type) string {
	s := x.so.SortOf(t)
	k := "H_" + smt.Sanitize(s)
	if s == "Int" {
		k += intKind(t)
	}
	if _, ok := x.heapSorts[k]; !ok {
		x.heapSorts[k] = fmt.Sprintf("(Array Int %s)", s)
	}
	return k
}

// heapKeySlice returns the heap name for slice backing stores with element t.
func (x *Exec) heapKeySlice(t types.Type) string {
	s := x.so.SortOf(t)
	k := "HS_" + smt.Sanitize(s)
	if s == "Int" {
		k += intKind(t)
	}
	if _, ok := x.heapSorts[k]; !ok {
		x.heapSorts[k] = fmt.Sprintf("(Array Int (Array Int %s))", s)
	}
	return k
}

func (x *Exec) getHeap(st *State, key string) *smt.Term {
	if t, ok := st.heaps[key]; ok {
		return t
	}
	return x.initHeap(key)
}

func (x *Exec) initHeap(key string) *smt.Term {
	if t, ok := x.initHeaps[key]; ok {
		return t
	}
	sort, ok := x.heapSorts[key]
	if !ok {
		panic(fmt.Sprintf("heap %s has no sort", key))
	}
	t := x.b.Const(key+"@pre", sort)
	x.initHeaps[key] = t
	if key == "G_alloc" {
		x.hyps = append(x.hyps, x.b.Cmp(">=", t, x.b.Const("alloc0", "Int")))
	}
	return t
}

func (x *Exec) sel(arr, idx *smt.Term, sort string) *smt.Term {
	// select(store(a,i,v), i) = v
	if arr.Op == "store" && arr.Args[1] == idx {
		return arr.Args[2]
	}
	if arr.Op == "store" && arr.Args[1].IntV != nil && idx.IntV != nil && arr.Args[1].IntV.Cmp(idx.IntV) != 0 {
		return x.sel(arr.Args[0], idx, sort)
	}
	if arr.Op == "store" && x.knownDistinct(arr.Args[1], idx) {
		return x.sel(arr.Args[0], idx, sort)
	}
	if arr.Op == "ite" && len(arr.Args) == 3 && iteDepth(arr) <= 6 {
		// select distributes over a merge of two states: the branches then offer
		// ground select terms for quantifier instantiation
		return x.b.Ite(arr.Args[0], x.sel(arr.Args[1], idx, sort), x.sel(arr.Args[2], idx, sort))
	}
	return x.b.App("select", sort, arr, idx)
}

func iteDepth(t *smt.Term) int {
	d := 0
	for t.Op == "ite" && len(t.Args) == 3 {
		d++
		if t.Args[2].Op == "ite" {
			t = t.Args[2]
		} else {
			t = t.Args[1]
		}
	}
	return d
}

func (x *Exec) sto(arr, idx, v *smt.Term) *smt.Term {
	// store(store(a,i,_),i,v) = store(a,i,v)
	if arr.Op == "store" && arr.Args[1] == idx {
		arr = arr.Args[0]
	}
	return x.b.App("store", arr.Sort, arr, idx, v)
}

func (x *Exec) knownDistinct(a, c *smt.Term) bool {
	if a == c {
		return false
	}
	if (x.freshSet[a.ID] && x.isOldRef(c)) || (x.freshSet[c.ID] && x.isOldRef(a)) {
		return true
	}
	if a.ID > c.ID {
		a, c = c, a
	}
	return x.distinct[[2]int{a.ID, c.ID}]
}

func (x *Exec) markDistinct(a, c *smt.Term) {
	if a.ID > c.ID {
		a, c = c, a
	}
	if x.distinct == nil {
		x.distinct = map[[2]int]bool{}
	}
	x.distinct[[2]int{a.ID, c.ID}] = true
}

// mergeStates merges edge states by ite on edge conditions.
func (x *Exec) mergeStates(edges []*Edge) *State {
	if len(edges) == 1 {
		return edges[0].st.clone()
	}
	res := newState()
	// cells
	ckeys := map[*cellKey]bool{}
	hkeys := map[string]bool{}
	for _, e := range edges {
		for k := range e.st.cells {
			ckeys[k] = true
		}
		for k := range e.st.heaps {
			hkeys[k] = true
		}
	}
	for k := range ckeys {
		var acc *smt.Term
		ok := true
		for i := len(edges) - 1; i >= 0; i-- {
			v, has := edges[i].st.cells[k]
			if !has {
				ok = false
				break
			}
			if acc == nil {
				acc = v
			} else {
				acc = x.b.Ite(edges[i].cond, v, acc)
			}
		}
		if ok {
			res.cells[k] = acc
		}
	}
	var hk []string
	for k := range hkeys {
		hk = append(hk, k)
	}
	sort.Strings(hk)
	for _, k := range hk {
		var acc *smt.Term
		for i := len(edges) - 1; i >= 0; i-- {
			v := x.getHeap(edges[i].st, k)
			if acc == nil {
				acc = v
			} else {
				acc = x.b.Ite(edges[i].cond, v, acc)
			}
		}
		res.heaps[k] = acc
	}
	return res
}

// mergeVals merges values with conditions (last is default).
func (x *Exec) mergeVals(conds []*smt.Term, vals []*Val) *Val {
	if len(vals) == 0 {
		return nil
	}
	acc := vals[len(vals)-1]
	for i := len(vals) - 2; i >= 0; i-- {
		acc = x.iteVal(conds[i], vals[i], acc)
	}
	return acc
}

func (x *Exec) iteVal(c *smt.Term, a, b *Val) *Val {
	if a == b {
		return a
	}
	if a == nil || b == nil {
		panic(unsupported("merge of undefined value"))
	}
	switch {
	case a.Tup != nil:
		if len(a.Tup) != len(b.Tup) {
			panic(unsupported("merge of tuples with different arity"))
		}
		r := &Val{Typ: a.Typ}
		for i := range a.Tup {
			r.Tup = append(r.Tup, x.iteVal(c, a.Tup[i], b.Tup[i]))
		}
		return r
	case a.Fn != nil || b.Fn != nil:
		if a.Fn == b.Fn && len(a.Binds) == len(b.Binds) {
			r := &Val{Typ: a.Typ, Fn: a.Fn}
			for i := range a.Binds {
				r.Binds = append(r.Binds, x.iteVal(c, a.Binds[i], b.Binds[i]))
			}
			return r
		}
		panic(unsupported("merge of distinct function values"))
	case a.Loc != nil || b.Loc != nil:
		ta, tb := x.locAsTerm(a), x.locAsTerm(b)
		if ta != nil && tb != nil {
			return &Val{Typ: a.Typ, T: x.b.Ite(c, ta, tb)}
		}
		if a.Loc != nil && b.Loc != nil && sameLoc(a.Loc, b.Loc) {
			return a
		}
		panic(unsupported("merge of distinct interior locations"))
	}
	return &Val{Typ: a.Typ, T: x.b.Ite(c, a.T, b.T)}
}

func sameLoc(a, b *Loc) bool {
	if a.Cell != b.Cell || a.Ref != b.Ref || a.SliceR != b.SliceR || a.SliceI != b.SliceI || a.SliceO != b.SliceO || len(a.Path) != len(b.Path) {
		return false
	}
	for i := range a.Path {
		if a.Path[i].Field != b.Path[i].Field || a.Path[i].Idx != b.Path[i].Idx {
			return false
		}
	}
	return true
}

// locAsTerm converts a pointer value to a heap reference term if possible.
func (x *Exec) locAsTerm(v *Val) *smt.Term {
	if v.T != nil {
		return v.T
	}
	if v.Loc != nil && v.Loc.Ref != nil && len(v.Loc.Path) == 0 {
		return v.Loc.Ref
	}
	if v.Loc != nil && v.Loc.Cell == nil && x.rootC != nil && x.rootC.Opts["interiorptrs"] != "" {
		return x.interiorPtr(v.Loc)
	}
	return nil
}

// interiorPtr (`opt interiorptrs 1`): a pointer into the middle of an object
// (slice element, struct field) used as a value - stored in a local array, say -
// is represented by a symbolic non-nil constant remembered together with the
// location it stands for. Dereferencing works when the value read back is that
// constant (or a merge of it with nil); anything else stays unsupported. Two
// different locations get unrelated constants (no aliasing fact is assumed).
func (x *Exec) interiorPtr(l *Loc) *smt.Term {
	for id, o := range x.iptrs {
		if sameLoc(o, l) {
			return x.iptrTerm[id]
		}
	}
	t := x.b.Fresh("iptr", "Int")
	x.axiom(x.b.Cmp(">", t, x.b.Int(0)))
	if x.iptrs == nil {
		x.iptrs = map[int]*Loc{}
		x.iptrTerm = map[int]*smt.Term{}
	}
	lc := *l
	x.iptrs[t.ID] = &lc
	x.iptrTerm[t.ID] = t
	return t
}

// resolveIptr: the location a pointer term stands for, if it is an interior
// pointer constant, possibly merged with nil.
func (x *Exec) resolveIptr(t *smt.Term) *Loc {
	if len(x.iptrs) == 0 {
		return nil
	}
	if l, ok := x.iptrs[t.ID]; ok {
		return l
	}
	if t.Op == "ite" && len(t.Args) == 3 {
		isZero := func(a *smt.Term) bool { return a.IntV != nil && a.IntV.Sign() == 0 }
		la, lb := x.resolveIptr(t.Args[1]), x.resolveIptr(t.Args[2])
		switch {
		case la != nil && isZero(t.Args[2]):
			return la
		case lb != nil && isZero(t.Args[1]):
			return lb
		case la != nil && lb != nil && sameLoc(la, lb):
			return la
		}
	}
	return nil
}

// isOldRef: the term denotes a reference that existed before the call
// (a parameter, or a pointer read from the initial heap).
func (x *Exec) isOldRef(t *smt.Term) bool {
	if x.oldSet[t.ID] {
		return true
	}
	return x.fromInitHeap(t)
}

// fromInitHeap reports whether t is a selector chain over a read of an initial heap.
func (x *Exec) fromInitHeap(t *smt.Term) bool {
	for depth := 0; depth < 12; depth++ {
		if t.Op == "select" && len(t.Args) == 2 {
			a := t.Args[0]
			if len(a.Args) == 0 && strings.HasSuffix(a.Op, "_pre") {
				return true
			}
			if a.Op == "select" {
				t = a
				continue
			}
			return false
		}
		if len(t.Args) == 1 && t.Op != "not" && t.Op != "-" {
			t = t.Args[0]
			continue
		}
		if strings.HasPrefix(t.Op, "rd_") && len(t.Args) == 3 {
			t = t.Args[0]
			if t.Op == "select" {
				continue
			}
			return false
		}
		return false
	}
	return false
}
