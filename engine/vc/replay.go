package vc

// Replay: turning a solver model of a failed obligation into an in-package Go
// test that runs the REAL function / lemma body on the model's inputs and
// evaluates the refuted clause concretely ("executable contracts").

import (
	"fmt"
	"go/types"
	"math/big"
	"sort"
	"strings"

	"golang.org/x/tools/go/ssa"

	"verifengine/smt"
)

// Leaf is one scalar the replay needs from the model.
type Leaf struct {
	Val    string // filled from the model
	Term   *smt.Term
	GoPath string     // Go lvalue to assign, e.g. "tr.Offset.X"
	Typ    types.Type // scalar Go type
}

// stubApp is one recorded application of an uninterpreted method / function value.
type stubApp struct {
	Method string
	Args   [][]Leaf // per argument, its leaves (GoPath relative: "a0.X")
	Res    []Leaf   // result leaves (GoPath relative: "r.X")
	ArgT   []types.Type
	ResT   types.Type
}

type stubInfo struct {
	Name    string // Go variable
	Typ     types.Type
	IsFunc  bool
	Apps    []*stubApp
	Methods []*types.Func
}

// ReplayPlan describes how to rebuild inputs and what to evaluate.
type ReplayPlan struct {
	PkgDir   string
	PkgName  string
	Leaves   []Leaf
	Setup    []string // Go statements creating the variables (before leaf assignment)
	Stubs    []*stubInfo
	Body     string // Go statements after inputs are built (call + clause evaluation)
	Helpers  string
	Imports  map[string]bool
	Unsup    string // non-empty: replay impossible, with reason
	ParamDoc []string
	Flat     []*Leaf
	real     bool
	q        types.Qualifier
}

// flatten collects every leaf (inputs and stub tables) in query order.
func (p *ReplayPlan) flatten() {
	p.Flat = nil
	for i := range p.Leaves {
		p.Flat = append(p.Flat, &p.Leaves[i])
	}
	for _, s := range p.Stubs {
		for _, a := range s.Apps {
			for k := range a.Args {
				for i := range a.Args[k] {
					p.Flat = append(p.Flat, &a.Args[k][i])
				}
			}
			for i := range a.Res {
				p.Flat = append(p.Flat, &a.Res[i])
			}
		}
	}
}

type rootInfo struct {
	names []string
	vars  map[string]*Val
	pkg   *ssa.Package
	fn    *ssa.Function // nil for lemmas
	fc    *FuncContract
	entry *State
}

// LeafQuery returns the (get-value ...) command for the plan's leaves.
func (p *ReplayPlan) LeafQuery(b *smt.Builder) string {
	p.flatten()
	if len(p.Flat) == 0 {
		return ""
	}
	var sb strings.Builder
	sb.WriteString("(get-value (")
	for i, l := range p.Flat {
		if i > 0 {
			sb.WriteByte(' ')
		}
		sb.WriteString(b.String(l.Term))
	}
	sb.WriteString("))\n")
	return sb.String()
}

func (x *Exec) qual(pkg *types.Package) types.Qualifier {
	return func(p *types.Package) string {
		if p == pkg {
			return ""
		}
		return p.Name()
	}
}

// BuildReplay prepares a replay plan for obligation o (post / lemma kinds).
func (r *FuncResult) BuildReplay(o *Obligation) (plan *ReplayPlan) {
	x := r.X
	plan = &ReplayPlan{Imports: map[string]bool{"testing": true, "math": true, "fmt": true, "reflect": true}}
	defer func() {
		if rec := recover(); rec != nil {
			plan.Unsup = fmt.Sprint(rec)
		}
	}()
	ri := x.rootInfo
	if ri == nil || ri.pkg == nil {
		plan.Unsup = "no root information"
		return
	}
	safetyMsg := map[string]string{"safe:make": "makeslice", "safe:index": "index out of range", "safe:slice": "out of range",
		"safe:nil": "nil pointer dereference", "safe:assert": "interface conversion", "safe:div": "divide by zero", "safe:panic": "", "safe:nilmap": "nil map"}
	wantPanic, isSafety := safetyMsg[o.Kind]
	if o.Kind != "post" && o.Kind != "lemma" && !isSafety {
		plan.Unsup = "replay is built for postconditions, lemmas and panic-safety obligations only (kind " + o.Kind + ")"
		return
	}
	if isSafety && ri.fn == nil {
		plan.Unsup = "safety replay needs a function"
		return
	}
	if ri.fn != nil && (len(ri.fn.FreeVars) > 0 || ri.fn.Parent() != nil) {
		plan.Unsup = "closures cannot be called directly"
		return
	}
	pkg := ri.pkg.Pkg
	plan.PkgName = pkg.Name()
	for _, m := range ri.pkg.Members {
		if pos := m.Pos(); pos.IsValid() {
			f := x.prog.Fset.Position(pos).Filename
			plan.PkgDir = f[:strings.LastIndex(f, "/")]
			break
		}
	}
	q := x.qual(pkg)
	g := &goGen{x: x, pkg: pkg, q: q, plan: plan, specs: map[string]bool{}, real: !x.fp}
	// 1. parameters
	for _, name := range ri.names {
		v := ri.vars[name]
		g.declareParam(name, v, ri.entry)
	}
	// 2. body
	var body strings.Builder
	fc := ri.fc
	for _, l := range fc.Lets {
		if ri.fn != nil {
			// lets of function contracts are evaluated at entry
		}
		fmt.Fprintf(&body, "\t%s := %s\n\t_ = %s\n", l.Label, g.expr(l.E), l.Label)
	}
	for i, rq := range fc.Requires {
		fmt.Fprintf(&body, "\tif !(%s) {\n\t\tfmt.Println(\"REPLAY-PRECONDITION-FALSE %d\")\n\t\treturn\n\t}\n", g.expr(rq.E), i)
	}
	if isSafety {
		// the refuted obligation says a run-time panic is reachable: call the real
		// function on the model's input and look for that panic
		fmt.Fprintf(&body, "\tfunc() {\n\t\tdefer func() {\n\t\t\tif r := recover(); r != nil {\n\t\t\t\tmsg := fmt.Sprint(r)\n\t\t\t\tif strings.Contains(msg, %q) {\n\t\t\t\t\tfmt.Println(\"REPLAY-CONFIRMED: the real code panics:\", msg)\n\t\t\t\t} else {\n\t\t\t\t\tfmt.Println(\"REPLAY-NOT-CONFIRMED: different panic:\", msg)\n\t\t\t\t}\n\t\t\t\treturn\n\t\t\t}\n\t\t\tfmt.Println(\"REPLAY-NOT-CONFIRMED: no panic on this input\")\n\t\t}()\n", wantPanic)
		body.WriteString(strings.ReplaceAll(g.callRoot(ri), "\n\t", "\n\t\t"))
		body.WriteString("\t}()\n")
		plan.Imports["strings"] = true
		plan.Body = body.String()
		plan.Helpers = g.helpers.String()
		plan.real = g.real
		plan.q = q
		return
	}
	// which clause failed?
	var clause *Clause
	for _, e := range fc.Ensures {
		if e.Text == o.Text {
			clause = e
		}
	}
	if clause == nil {
		plan.Unsup = "failed clause not found"
		return
	}
	if ri.fn != nil {
		g.collectOld(clause.E, &body)
		body.WriteString(g.callRoot(ri))
	}
	fmt.Fprintf(&body, "\tholds := %s\n", g.expr(clause.E))
	body.WriteString("\tif holds {\n\t\tfmt.Println(\"REPLAY-NOT-CONFIRMED: clause holds on the real code for this input\")\n\t} else {\n\t\tfmt.Println(\"REPLAY-CONFIRMED: clause is false on the real code for this input\")\n\t}\n")
	plan.Body = body.String()
	plan.Helpers = g.helpers.String()
	plan.real = g.real
	plan.q = q
	return
}

// SetValues assigns the model values (in LeafQuery order).
func (p *ReplayPlan) SetValues(vals []string) error {
	if len(vals) != len(p.Flat) {
		return fmt.Errorf("expected %d values, got %d", len(p.Flat), len(vals))
	}
	for i, v := range vals {
		p.Flat[i].Val = v
	}
	return nil
}

func zeroLit(t types.Type, q types.Qualifier) string {
	switch u := t.Underlying().(type) {
	case *types.Basic:
		switch {
		case u.Info()&types.IsBoolean != 0:
			return "false"
		case u.Info()&types.IsString != 0:
			return "\"\""
		default:
			return "0"
		}
	case *types.Pointer, *types.Slice, *types.Map, *types.Interface, *types.Signature, *types.Chan:
		return "nil"
	}
	return types.TypeString(t, q) + "{}"
}

// Render produces the Go test source for the plan with its model values.
func (p *ReplayPlan) Render() (string, error) {
	var sb strings.Builder
	fmt.Fprintf(&sb, "package %s\n\nimport (\n", p.PkgName)
	var imps []string
	for k := range p.Imports {
		imps = append(imps, k)
	}
	sort.Strings(imps)
	for _, k := range imps {
		fmt.Fprintf(&sb, "\t%q\n", k)
	}
	sb.WriteString(")\n\nvar _ = math.Abs\nvar _ = reflect.DeepEqual\n\n")
	sb.WriteString(replayHelpers)
	sb.WriteString(p.Helpers)
	// stubs
	assign := func(w *strings.Builder, indent string, leaves []Leaf, rename func(string) string) error {
		lens := map[string]int{}
		for _, l := range leaves {
			path := l.GoPath
			if strings.HasPrefix(path, "len:") {
				rest := path[4:]
				i := strings.Index(rest, ":")
				sp, ts := rest[:i], rest[i+1:]
				v := GoValue(l.Val, l.Typ)
				n := 0
				fmt.Sscanf(v, "%d", &n)
				if n < 0 {
					n = 0
				}
				if n > 64 {
					n = 64
				}
				lens[sp] = n
				fmt.Fprintf(w, "%s%s = make(%s, %d)\n", indent, rename(sp), ts, n)
				continue
			}
			if strings.HasPrefix(path, "elem:") {
				path = path[5:]
				// only elements below the length
				skip := false
				for sp, n := range lens {
					if strings.HasPrefix(path, sp+"[") {
						k := 0
						fmt.Sscanf(path[len(sp)+1:], "%d", &k)
						if k >= n {
							skip = true
						}
					}
				}
				if skip {
					continue
				}
			}
			v := GoValue(l.Val, l.Typ)
			if v == "" {
				return fmt.Errorf("model value %q for %s not representable", l.Val, l.GoPath)
			}
			bt := l.Typ.Underlying().(*types.Basic)
			if bt.Info()&types.IsBoolean != 0 {
				fmt.Fprintf(w, "%s%s = %s\n", indent, rename(path), v)
			} else {
				fmt.Fprintf(w, "%s%s = %s(%s)\n", indent, rename(path), types.TypeString(l.Typ, p.q), v)
			}
		}
		return nil
	}
	ident := func(s string) string { return s }
	for si, st := range p.Stubs {
		if st.IsFunc {
			continue
		}
		tn := fmt.Sprintf("vrStub%d", si)
		fmt.Fprintf(&sb, "type %s struct{ %s }\n", tn, types.TypeString(st.Typ, p.q))
		byMethod := map[string][]*stubApp{}
		for _, a := range st.Apps {
			byMethod[a.Method] = append(byMethod[a.Method], a)
		}
		for _, m := range st.Methods {
			apps := byMethod[m.Name()]
			sig := m.Type().(*types.Signature)
			if sig.Results().Len() != 1 {
				continue
			}
			rt := sig.Results().At(0).Type()
			var ps []string
			for k := 0; k < sig.Params().Len(); k++ {
				ps = append(ps, fmt.Sprintf("p%d %s", k, types.TypeString(sig.Params().At(k).Type(), p.q)))
			}
			fmt.Fprintf(&sb, "func (s *%s) %s(%s) %s {\n", tn, m.Name(), strings.Join(ps, ", "), types.TypeString(rt, p.q))
			for _, a := range apps {
				sb.WriteString("\t{\n")
				var conds []string
				for k := range a.Args {
					fmt.Fprintf(&sb, "\t\tvar a%d %s\n", k, types.TypeString(a.ArgT[k], p.q))
					if err := assign(&sb, "\t\t", a.Args[k], ident); err != nil {
						return "", err
					}
					conds = append(conds, fmt.Sprintf("vrApprox(p%d, a%d)", k, k))
				}
				fmt.Fprintf(&sb, "\t\tvar r %s\n", types.TypeString(rt, p.q))
				if err := assign(&sb, "\t\t", a.Res, ident); err != nil {
					return "", err
				}
				if len(conds) == 0 {
					sb.WriteString("\t\treturn r\n")
				} else {
					fmt.Fprintf(&sb, "\t\tif %s { return r }\n", strings.Join(conds, " && "))
				}
				sb.WriteString("\t}\n")
			}
			fmt.Fprintf(&sb, "\tvar z %s\n\treturn z\n}\n", types.TypeString(rt, p.q))
		}
	}
	sb.WriteString("\nfunc TestZZVerifReplay(t *testing.T) {\n")
	sb.WriteString("\tdefer func() { if r := recover(); r != nil { fmt.Println(\"REPLAY-PANIC:\", r) } }()\n")
	for si, st := range p.Stubs {
		if st.IsFunc {
			sig := st.Typ.Underlying().(*types.Signature)
			var ps []string
			for k := 0; k < sig.Params().Len(); k++ {
				ps = append(ps, fmt.Sprintf("p%d %s", k, types.TypeString(sig.Params().At(k).Type(), p.q)))
			}
			rts := ""
			if sig.Results().Len() == 1 {
				rts = types.TypeString(sig.Results().At(0).Type(), p.q)
			} else if sig.Results().Len() > 1 {
				return "", fmt.Errorf("function parameter with several results")
			}
			fmt.Fprintf(&sb, "\tvar %s %s = func(%s) %s {\n", st.Name, types.TypeString(st.Typ, p.q), strings.Join(ps, ", "), rts)
			for _, a := range st.Apps {
				sb.WriteString("\t\t{\n")
				var conds []string
				for k := range a.Args {
					fmt.Fprintf(&sb, "\t\t\tvar a%d %s\n", k, types.TypeString(a.ArgT[k], p.q))
					if err := assign(&sb, "\t\t\t", a.Args[k], ident); err != nil {
						return "", err
					}
					conds = append(conds, fmt.Sprintf("vrApprox(p%d, a%d)", k, k))
				}
				fmt.Fprintf(&sb, "\t\t\tvar r %s\n", rts)
				if err := assign(&sb, "\t\t\t", a.Res, ident); err != nil {
					return "", err
				}
				if len(conds) == 0 {
					sb.WriteString("\t\t\treturn r\n")
				} else {
					fmt.Fprintf(&sb, "\t\t\tif %s { return r }\n", strings.Join(conds, " && "))
				}
				sb.WriteString("\t\t}\n")
			}
			if rts != "" {
				fmt.Fprintf(&sb, "\t\tvar z %s\n\t\treturn z\n", rts)
			}
			sb.WriteString("\t}\n")
			fmt.Fprintf(&sb, "\t_ = %s\n", st.Name)
			continue
		}
		fmt.Fprintf(&sb, "\tvar %s %s = &vrStub%d{}\n\t_ = %s\n", st.Name, types.TypeString(st.Typ, p.q), si, st.Name)
	}
	for _, s := range p.Setup {
		if strings.Contains(s, " = new(") && !strings.Contains(s, ":=") {
			continue // nested pointer allocations are emitted below, in order
		}
		sb.WriteString("\t" + s + "\n")
		name := strings.Fields(strings.TrimPrefix(s, "var "))[0]
		fmt.Fprintf(&sb, "\t_ = %s\n", name)
	}
	for _, s := range p.Setup {
		if strings.Contains(s, " = new(") && !strings.Contains(s, ":=") {
			sb.WriteString("\t" + s + "\n")
		}
	}
	if err := assign(&sb, "\t", p.Leaves, ident); err != nil {
		return "", err
	}
	sb.WriteString(p.Body)
	sb.WriteString("}\n")
	return sb.String(), nil
}

const replayHelpers = `
func vrSq(x float64) float64 { return x * x }
func vrSqI(x int) int       { return x * x }
func vrFinite(x float64) bool { return !math.IsNaN(x) && !math.IsInf(x, 0) }
func vrIsInt(x float64) bool  { return math.Abs(x-math.Round(x)) <= 1e-9*math.Max(1, math.Abs(x)) }

// vrApprox: structural equality with a relative tolerance on floats (the
// real-number model's equalities are checked up to rounding).
func vrApprox(a, b interface{}) bool {
	return vrApproxV(reflect.ValueOf(a), reflect.ValueOf(b))
}

func vrApproxV(a, b reflect.Value) bool {
	if a.Kind() != b.Kind() {
		if a.CanFloat() && b.CanInt() {
			return vrApproxF(a.Float(), float64(b.Int()))
		}
		if a.CanInt() && b.CanFloat() {
			return vrApproxF(float64(a.Int()), b.Float())
		}
		return false
	}
	switch a.Kind() {
	case reflect.Float32, reflect.Float64:
		return vrApproxF(a.Float(), b.Float())
	case reflect.Struct:
		for i := 0; i < a.NumField(); i++ {
			if !vrApproxV(a.Field(i), b.Field(i)) {
				return false
			}
		}
		return true
	case reflect.Array, reflect.Slice:
		if a.Len() != b.Len() {
			return false
		}
		for i := 0; i < a.Len(); i++ {
			if !vrApproxV(a.Index(i), b.Index(i)) {
				return false
			}
		}
		return true
	case reflect.Ptr, reflect.Interface:
		if a.IsNil() || b.IsNil() {
			return a.IsNil() == b.IsNil()
		}
		return vrApproxV(a.Elem(), b.Elem())
	case reflect.Bool:
		return a.Bool() == b.Bool()
	case reflect.Int, reflect.Int8, reflect.Int16, reflect.Int32, reflect.Int64:
		return a.Int() == b.Int()
	case reflect.Uint, reflect.Uint8, reflect.Uint16, reflect.Uint32, reflect.Uint64:
		return a.Uint() == b.Uint()
	case reflect.String:
		return a.String() == b.String()
	}
	return false
}

func vrApproxF(x, y float64) bool {
	if x == y {
		return true
	}
	d := math.Abs(x - y)
	m := math.Max(math.Abs(x), math.Abs(y))
	return d <= 1e-9*math.Max(1, m)
}
`

var _ = func() int { return 0 }

// ---------------------------------------------------------------------

type goGen struct {
	x       *Exec
	pkg     *types.Package
	q       types.Qualifier
	plan    *ReplayPlan
	helpers strings.Builder
	specs   map[string]bool
	real    bool
	olds    map[Expr]string
	nstub   int
}

func (g *goGen) typeStr(t types.Type) string { return types.TypeString(t, g.q) }

func (g *goGen) fail(format string, a ...interface{}) { panic(fmt.Sprintf(format, a...)) }

// declareParam emits setup for one parameter and registers its leaves.
func (g *goGen) declareParam(name string, v *Val, st *State) {
	x := g.x
	t := v.Typ
	switch u := t.Underlying().(type) {
	case *types.Interface:
		g.declareStub(name, v, u, st)
		return
	case *types.Signature:
		g.declareFuncStub(name, v, u)
		return
	case *types.Pointer:
		g.plan.Setup = append(g.plan.Setup, fmt.Sprintf("%s := new(%s)", name, g.typeStr(u.Elem())))
		loc := &Loc{Ref: x.asTerm(v), RootTyp: u.Elem(), Typ: u.Elem()}
		g.leaves("(*"+name+")", x.loadLoc(st, loc), u.Elem(), st, 0)
		return
	}
	g.plan.Setup = append(g.plan.Setup, fmt.Sprintf("var %s %s", name, g.typeStr(t)))
	g.leaves(name, x.asTerm(v), t, st, 0)
}

const replaySliceMax = 6

// leaves registers scalar leaves of value term tm (type t) under Go path.
func (g *goGen) leaves(path string, tm *smt.Term, t types.Type, st *State, depth int) {
	x := g.x
	if depth > 6 {
		g.fail("value too deep for replay")
	}
	switch u := t.Underlying().(type) {
	case *types.Basic:
		if u.Info()&(types.IsInteger|types.IsFloat|types.IsBoolean) != 0 {
			g.plan.Leaves = append(g.plan.Leaves, Leaf{Term: tm, GoPath: path, Typ: t})
			return
		}
		if u.Info()&types.IsString != 0 {
			return // strings are left empty
		}
	case *types.Struct:
		for i := 0; i < u.NumFields(); i++ {
			f := u.Field(i)
			if f.Name() == "_" {
				continue
			}
			if !f.Exported() && f.Pkg() != g.pkg {
				continue
			}
			g.leaves(path+"."+f.Name(), x.fieldOf(tm, t, i), f.Type(), st, depth+1)
		}
		return
	case *types.Array:
		if u.Len() > 32 {
			g.fail("array too large for replay")
		}
		for k := int64(0); k < u.Len(); k++ {
			g.leaves(fmt.Sprintf("%s[%d]", path, k), x.elemOf(tm, t, x.b.Int(k)), u.Elem(), st, depth+1)
		}
		return
	case *types.Pointer:
		if g.typeStr(u.Elem()) == "bufio.Reader" {
			g.plan.Imports["bufio"] = true
			g.plan.Imports["strings"] = true
			g.plan.Setup = append(g.plan.Setup, fmt.Sprintf("%s = bufio.NewReader(strings.NewReader(\"\")) // = new(", path))
			return
		}
		// nested pointer: allocate and fill (assumed non-nil)
		g.plan.Setup = append(g.plan.Setup, fmt.Sprintf("%s = new(%s)", path, g.typeStr(u.Elem())))
		loc := &Loc{Ref: tm, RootTyp: u.Elem(), Typ: u.Elem()}
		g.leaves("(*"+path+")", x.loadLoc(st, loc), u.Elem(), st, depth+1)
		return
	case *types.Slice:
		// length leaf drives allocation; elements up to replaySliceMax
		g.plan.Leaves = append(g.plan.Leaves, Leaf{Term: x.sLen(tm), GoPath: "len:" + path + ":" + g.typeStr(t), Typ: types.Typ[types.Int]})
		for k := 0; k < replaySliceMax; k++ {
			loc := &Loc{SliceR: x.sRef(tm), SliceO: x.sOff(tm), SliceI: x.b.Int(int64(k)), RootTyp: u.Elem(), Typ: u.Elem()}
			switch u.Elem().Underlying().(type) {
			case *types.Interface, *types.Signature, *types.Map, *types.Chan:
				g.fail("slice of %s cannot be rebuilt for replay", u.Elem())
			}
			g.leaves(fmt.Sprintf("elem:%s[%d]", path, k), x.loadLoc(st, loc), u.Elem(), st, depth+1)
		}
		return
	case *types.Interface, *types.Signature, *types.Map, *types.Chan:
		if depth > 0 {
			return // left nil / zero in the rebuilt input
		}
		g.fail("nested %s cannot be rebuilt for replay", t)
	}
	g.fail("type %s cannot be rebuilt for replay", t)
}

// declareStub creates a stub implementing interface type for parameter name.
func (g *goGen) declareStub(name string, v *Val, it *types.Interface, st *State) {
	x := g.x
	g.nstub++
	si := &stubInfo{Name: name, Typ: v.Typ}
	recv := x.asTerm(v)
	// record ground applications of method symbols on this receiver
	apps := g.findApps(func(t *smt.Term) bool {
		return strings.HasPrefix(t.Op, "m_") && len(t.Args) >= 1 && t.Args[0] == recv
	})
	for i := 0; i < it.NumMethods(); i++ {
		m := it.Method(i)
		si.Methods = append(si.Methods, m)
		key := "m_" + smt.Sanitize(normalizeFuncName(m.FullName()))
		sig := m.Type().(*types.Signature)
		if sig.Results().Len() != 1 {
			continue
		}
		rt := sig.Results().At(0).Type()
		for _, a := range apps {
			if a.Op != key {
				continue
			}
			sa := &stubApp{Method: m.Name(), ResT: rt}
			okApp := true
			func() {
				defer func() {
					if rec := recover(); rec != nil {
						okApp = false
					}
				}()
				save := g.plan.Leaves
				g.plan.Leaves = nil
				for k := 0; k < sig.Params().Len(); k++ {
					pt := sig.Params().At(k).Type()
					sa.ArgT = append(sa.ArgT, pt)
					g.leaves(fmt.Sprintf("a%d", k), a.Args[k+1], pt, st, 0)
					sa.Args = append(sa.Args, g.plan.Leaves)
					g.plan.Leaves = nil
				}
				g.leaves("r", a, rt, st, 0)
				sa.Res = g.plan.Leaves
				g.plan.Leaves = save
			}()
			if okApp {
				si.Apps = append(si.Apps, sa)
			}
		}
	}
	g.plan.Stubs = append(g.plan.Stubs, si)
}

func (g *goGen) declareFuncStub(name string, v *Val, sig *types.Signature) {
	x := g.x
	si := &stubInfo{Name: name, Typ: v.Typ, IsFunc: true}
	ft := x.asTerm(v)
	if sig.Results().Len() == 1 {
		rt := sig.Results().At(0).Type()
		apps := g.findApps(func(t *smt.Term) bool {
			return strings.HasPrefix(t.Op, "apply_") && len(t.Args) >= 1 && t.Args[0] == ft
		})
		for _, a := range apps {
			sa := &stubApp{Method: "", ResT: rt}
			okApp := true
			func() {
				defer func() {
					if rec := recover(); rec != nil {
						okApp = false
					}
				}()
				save := g.plan.Leaves
				g.plan.Leaves = nil
				for k := 0; k < sig.Params().Len(); k++ {
					pt := sig.Params().At(k).Type()
					sa.ArgT = append(sa.ArgT, pt)
					g.leaves(fmt.Sprintf("a%d", k), a.Args[k+1], pt, nil, 0)
					sa.Args = append(sa.Args, g.plan.Leaves)
					g.plan.Leaves = nil
				}
				g.leaves("r", a, rt, nil, 0)
				sa.Res = g.plan.Leaves
				g.plan.Leaves = save
			}()
			if okApp {
				si.Apps = append(si.Apps, sa)
			}
		}
	}
	g.plan.Stubs = append(g.plan.Stubs, si)
}

// findApps collects closed application terms satisfying pred from hyps and obligations.
func (g *goGen) findApps(pred func(*smt.Term) bool) []*smt.Term {
	x := g.x
	seen := map[int]bool{}
	var out []*smt.Term
	var walk func(t *smt.Term)
	walk = func(t *smt.Term) {
		if seen[t.ID] {
			return
		}
		seen[t.ID] = true
		if !t.Bound && pred(t) {
			out = append(out, t)
		}
		for _, a := range t.Args {
			walk(a)
		}
	}
	for _, h := range x.hyps {
		walk(h)
	}
	for _, o := range x.obls {
		walk(o.Goal)
		walk(o.Guard)
	}
	sort.Slice(out, func(i, j int) bool { return out[i].ID < out[j].ID })
	if len(out) > 24 {
		out = out[:24]
	}
	return out
}

// ---------------------------------------------------------------------
// expression -> Go

func (g *goGen) typeOf(e Expr) types.Type {
	return g.x.exprTypes[e]
}

func (g *goGen) isFloaty(t types.Type) bool {
	if t == nil {
		return false
	}
	if t == untypedFloat {
		return true
	}
	return containsFloat(t)
}

func (g *goGen) expr(e Expr) string {
	switch n := e.(type) {
	case *EInt:
		return n.V.String()
	case *EFloat:
		f, _ := n.V.Float64()
		return fmt.Sprintf("float64(%v)", f)
	case *EBool:
		return fmt.Sprint(n.V)
	case *EString:
		return fmt.Sprintf("%q", n.V)
	case *EIdent:
		if strings.HasPrefix(n.Name, "$") {
			g.fail("loop variables are not available in replay")
		}
		return n.Name
	case *EUnary:
		return "(" + n.Op + g.expr(n.X) + ")"
	case *EBinary:
		return g.binary(n)
	case *ECond:
		t := g.typeOf(n.A)
		if t == nil || t == untypedInt || t == untypedFloat {
			t = g.typeOf(n.B)
		}
		if t == nil {
			g.fail("untyped conditional")
		}
		ts := g.typeStr(t)
		if t == untypedFloat {
			ts = "float64"
		}
		if t == untypedInt {
			ts = "int"
		}
		return fmt.Sprintf("func() %s { if %s { return %s }; return %s }()", ts, g.expr(n.C), g.expr(n.A), g.expr(n.B))
	case *ESel:
		// tuple projection
		if isDigits(n.Sel) {
			if id, ok := n.X.(*EIdent); ok && id.Name == "result" {
				return "result" + n.Sel
			}
			tt, ok := g.typeOf(n.X).(*types.Tuple)
			if !ok {
				g.fail("tuple projection of non-tuple")
			}
			k := 0
			fmt.Sscanf(n.Sel, "%d", &k)
			var lhs []string
			for i := 0; i < tt.Len(); i++ {
				if i == k {
					lhs = append(lhs, "v")
				} else {
					lhs = append(lhs, "_")
				}
			}
			return fmt.Sprintf("func() %s { %s := %s; return v }()", g.typeStr(tt.At(k).Type()), strings.Join(lhs, ", "), g.expr(n.X))
		}
		return g.expr(n.X) + "." + n.Sel
	case *EIndex:
		return g.expr(n.X) + "[" + g.expr(n.I) + "]"
	case *ESlice:
		lo, hi := "", ""
		if n.Lo != nil {
			lo = g.expr(n.Lo)
		}
		if n.Hi != nil {
			hi = g.expr(n.Hi)
		}
		return g.expr(n.X) + "[" + lo + ":" + hi + "]"
	case *ECall:
		return g.call(n)
	}
	g.fail("expression form %T not supported in replay", e)
	return ""
}

func isDigits(s string) bool {
	if s == "" {
		return false
	}
	for _, c := range s {
		if c < '0' || c > '9' {
			return false
		}
	}
	return true
}

func (g *goGen) binary(n *EBinary) string {
	a, c := g.expr(n.X), g.expr(n.Y)
	ta, tc := g.typeOf(n.X), g.typeOf(n.Y)
	switch n.Op {
	case "==>":
		return "(!(" + a + ") || (" + c + "))"
	case "<==>":
		return "((" + a + ") == (" + c + "))"
	case "&&", "||":
		return "(" + a + " " + n.Op + " " + c + ")"
	case "==", "!=":
		neg := ""
		if n.Op == "!=" {
			neg = "!"
		}
		if g.real && (g.isFloaty(ta) || g.isFloaty(tc)) {
			return neg + "vrApprox(" + a + ", " + c + ")"
		}
		if isStructLike(ta) || isStructLike(tc) {
			return neg + "reflect.DeepEqual(" + a + ", " + c + ")"
		}
		return "(" + a + " " + n.Op + " " + c + ")"
	case "+", "-":
		if isStructLike(ta) || isStructLike(tc) {
			m := "Add"
			if n.Op == "-" {
				m = "Sub"
			}
			return a + "." + m + "(" + c + ")"
		}
	case "*":
		if isStructLike(ta) && !isStructLike(tc) {
			return a + ".Scale(float64(" + c + "))"
		}
		if isStructLike(tc) && !isStructLike(ta) {
			return c + ".Scale(float64(" + a + "))"
		}
	}
	// numeric: make mixed untyped/typed work by converting literals
	if g.isFloaty(ta) || g.isFloaty(tc) {
		return "(float64(" + a + ") " + n.Op + " float64(" + c + "))"
	}
	return "(" + a + " " + n.Op + " " + c + ")"
}

func (g *goGen) call(n *ECall) string {
	x := g.x
	args := func() []string {
		var out []string
		for _, a := range n.Args {
			out = append(out, g.expr(a))
		}
		return out
	}
	if id, ok := n.Fun.(*EIdent); ok {
		switch id.Name {
		case "old":
			if s, ok := g.olds[n.Args[0]]; ok {
				return s
			}
			return g.expr(n.Args[0]) // lemma / no call: old is identity
		case "len", "cap":
			return id.Name + "(" + strings.Join(args(), ", ") + ")"
		case "forall", "exists":
			if len(n.Args) != 4 {
				g.fail("typed quantifiers cannot be replayed")
			}
			v := n.Args[0].(*EIdent).Name
			if id.Name == "forall" {
				return fmt.Sprintf("func() bool { for %s := int(%s); %s < int(%s); %s++ { if !(%s) { return false } }; return true }()", v, g.expr(n.Args[1]), v, g.expr(n.Args[2]), v, g.expr(n.Args[3]))
			}
			return fmt.Sprintf("func() bool { for %s := int(%s); %s < int(%s); %s++ { if %s { return true } }; return false }()", v, g.expr(n.Args[1]), v, g.expr(n.Args[2]), v, g.expr(n.Args[3]))
		case "abs":
			return "math.Abs(float64(" + g.expr(n.Args[0]) + "))"
		case "min":
			return "math.Min(float64(" + g.expr(n.Args[0]) + "), float64(" + g.expr(n.Args[1]) + "))"
		case "max":
			return "math.Max(float64(" + g.expr(n.Args[0]) + "), float64(" + g.expr(n.Args[1]) + "))"
		case "sq":
			t := g.typeOf(n.Args[0])
			if t != nil && isInteger(t) {
				return "vrSqI(" + g.expr(n.Args[0]) + ")"
			}
			return "vrSq(float64(" + g.expr(n.Args[0]) + "))"
		case "sqrt":
			return "math.Sqrt(float64(" + g.expr(n.Args[0]) + "))"
		case "float", "float64", "real":
			return "float64(" + g.expr(n.Args[0]) + ")"
		case "int":
			return "int(" + g.expr(n.Args[0]) + ")"
		case "isnil":
			return "(" + g.expr(n.Args[0]) + " == nil)"
		case "has":
			return fmt.Sprintf("func() bool { _, ok := %s[%s]; return ok }()", g.expr(n.Args[0]), g.expr(n.Args[1]))
		case "isNaN":
			return "math.IsNaN(" + g.expr(n.Args[0]) + ")"
		case "isInf":
			return "math.IsInf(" + g.expr(n.Args[0]) + ", 0)"
		case "finite":
			return "vrFinite(" + g.expr(n.Args[0]) + ")"
		case "ite":
			return g.expr(&ECond{n.Args[0], n.Args[1], n.Args[2]})
		case "asiface":
			return g.expr(n.Args[0])
		case "as":
			return g.expr(n.Args[0]) + ".(" + n.Args[1].(*EString).V + ")"
		case "dyntype":
			return fmt.Sprintf("func() bool { _, ok := interface{}(%s).(%s); return ok }()", g.expr(n.Args[0]), n.Args[1].(*EString).V)
		case "isint":
			return "vrIsInt(float64(" + g.expr(n.Args[0]) + "))"
		case "ghost":
			return "0" // ghost state has no run-time counterpart
		case "calls":
			g.fail("calls() cannot be replayed yet")
		}
		if sp := x.prog.Contracts.Specs[id.Name]; sp != nil {
			g.emitSpec(sp)
			return "vrspec_" + id.Name + "(" + strings.Join(args(), ", ") + ")"
		}
		return id.Name + "(" + strings.Join(args(), ", ") + ")"
	}
	if sel, ok := n.Fun.(*ESel); ok {
		if id, ok := sel.X.(*EIdent); ok {
			if p := x.prog.importedPkg(g.x.rootInfo.pkg, id.Name); p != nil && g.typeOf(sel.X) == nil {
				g.plan.Imports[p.Pkg.Path()] = true
				return id.Name + "." + sel.Sel + "(" + strings.Join(args(), ", ") + ")"
			}
		}
		return g.expr(sel.X) + "." + sel.Sel + "(" + strings.Join(args(), ", ") + ")"
	}
	g.fail("call form not supported in replay")
	return ""
}

func (g *goGen) emitSpec(sp *FuncContract) {
	if g.specs[sp.Name] {
		return
	}
	g.specs[sp.Name] = true
	pkg := g.x.prog.pkgOfFile(sp.File)
	var ps []string
	for _, p := range sp.Params {
		t := g.x.prog.resolveType(pkg, p.Type)
		if t == nil {
			g.fail("spec %s: cannot resolve %s", sp.Name, p.Type)
		}
		ps = append(ps, p.Name+" "+g.typeStr(t))
	}
	rt := g.x.prog.resolveType(pkg, sp.RetType)
	if rt == nil {
		g.fail("spec %s: cannot resolve result type %q", sp.Name, sp.RetType)
	}
	body := g.expr(sp.Body.E)
	fmt.Fprintf(&g.helpers, "func vrspec_%s(%s) %s { return %s(%s) }\n", sp.Name, strings.Join(ps, ", "), g.typeStr(rt), g.typeStr(rt), body)
}

// collectOld pre-evaluates old(e) sub-expressions before the call.
func (g *goGen) collectOld(e Expr, body *strings.Builder) {
	if g.olds == nil {
		g.olds = map[Expr]string{}
	}
	var walk func(e Expr)
	walk = func(e Expr) {
		switch n := e.(type) {
		case *ECall:
			if id, ok := n.Fun.(*EIdent); ok && id.Name == "old" {
				name := fmt.Sprintf("vrold%d", len(g.olds))
				fmt.Fprintf(body, "\t%s := %s\n\t_ = %s\n", name, g.expr(n.Args[0]), name)
				g.olds[n.Args[0]] = name
				return
			}
			walk(n.Fun)
			for _, a := range n.Args {
				walk(a)
			}
		case *EUnary:
			walk(n.X)
		case *EBinary:
			walk(n.X)
			walk(n.Y)
		case *ECond:
			walk(n.C)
			walk(n.A)
			walk(n.B)
		case *ESel:
			walk(n.X)
		case *EIndex:
			walk(n.X)
			walk(n.I)
		}
	}
	walk(e)
}

// callRoot emits the call of the real function under contract.
func (g *goGen) callRoot(ri *rootInfo) string {
	f := ri.fn
	sig := f.Signature
	var args []string
	start := 0
	callee := f.Name()
	if sig.Recv() != nil {
		callee = ri.names[0] + "." + f.Name()
		start = 1
	}
	for _, n := range ri.names[start:] {
		args = append(args, n)
	}
	if sig.Variadic() && len(args) > 0 {
		args[len(args)-1] += "..."
	}
	var sb strings.Builder
	nres := sig.Results().Len()
	call := callee + "(" + strings.Join(args, ", ") + ")"
	switch nres {
	case 0:
		sb.WriteString("\t" + call + "\n")
	case 1:
		sb.WriteString("\tresult := " + call + "\n\t_ = result\n")
		if n := sig.Results().At(0).Name(); n != "" && n != "_" {
			fmt.Fprintf(&sb, "\t%s := result\n\t_ = %s\n", n, n)
		}
	default:
		var lhs []string
		for i := 0; i < nres; i++ {
			lhs = append(lhs, fmt.Sprintf("result%d", i))
		}
		sb.WriteString("\t" + strings.Join(lhs, ", ") + " := " + call + "\n")
		for i := 0; i < nres; i++ {
			fmt.Fprintf(&sb, "\t_ = result%d\n", i)
			if n := sig.Results().At(i).Name(); n != "" && n != "_" {
				fmt.Fprintf(&sb, "\t%s := result%d\n\t_ = %s\n", n, i, n)
			}
		}
	}
	return sb.String()
}

// ---------------------------------------------------------------------
// rendering with concrete values

// GoValue renders a model value string for Go type t ("" if unparsable).
func GoValue(val string, t types.Type) string {
	bt, ok := t.Underlying().(*types.Basic)
	if !ok {
		return ""
	}
	val = strings.TrimSpace(val)
	switch {
	case bt.Info()&types.IsBoolean != 0:
		if val == "true" || val == "false" {
			return val
		}
	case bt.Info()&types.IsInteger != 0:
		if r := parseNum(val); r != nil && r.IsInt() {
			return r.Num().String()
		}
	case bt.Info()&types.IsFloat != 0:
		if strings.HasPrefix(val, "(fp ") || strings.HasPrefix(val, "(_ ") {
			return parseFP(val)
		}
		if r := parseNum(val); r != nil {
			f, _ := r.Float64()
			return fmt.Sprintf("%v", f)
		}
	}
	return ""
}

// parseNum parses SMT numerals: 5, 5.0, (- 5), (/ 1.0 3.0), (- (/ 1 3)).
func parseNum(s string) *big.Rat {
	s = strings.TrimSpace(s)
	if strings.HasPrefix(s, "(") && strings.HasSuffix(s, ")") {
		inner := strings.TrimSpace(s[1 : len(s)-1])
		if strings.HasPrefix(inner, "- ") {
			r := parseNum(inner[2:])
			if r == nil {
				return nil
			}
			return r.Neg(r)
		}
		if strings.HasPrefix(inner, "/ ") {
			parts := splitSexp(inner[2:])
			if len(parts) != 2 {
				return nil
			}
			a, b := parseNum(parts[0]), parseNum(parts[1])
			if a == nil || b == nil || b.Sign() == 0 {
				return nil
			}
			return a.Quo(a, b)
		}
		return nil
	}
	s = strings.TrimSuffix(s, "?")
	r, ok := new(big.Rat).SetString(s)
	if !ok {
		return nil
	}
	return r
}

func splitSexp(s string) []string {
	var out []string
	depth := 0
	start := -1
	for i, c := range s {
		switch {
		case c == '(':
			if depth == 0 && start < 0 {
				start = i
			}
			depth++
		case c == ')':
			depth--
			if depth == 0 {
				out = append(out, s[start:i+1])
				start = -1
			}
		case c == ' ' || c == '\n' || c == '\t':
			if depth == 0 && start >= 0 {
				out = append(out, s[start:i])
				start = -1
			}
		default:
			if start < 0 {
				start = i
			}
		}
	}
	if start >= 0 {
		out = append(out, s[start:])
	}
	return out
}

func parseFP(s string) string {
	switch {
	case strings.HasPrefix(s, "(_ +zero"):
		return "0.0"
	case strings.HasPrefix(s, "(_ -zero"):
		return "math.Copysign(0, -1)"
	case strings.HasPrefix(s, "(_ +oo"):
		return "math.Inf(1)"
	case strings.HasPrefix(s, "(_ -oo"):
		return "math.Inf(-1)"
	case strings.HasPrefix(s, "(_ NaN"):
		return "math.NaN()"
	}
	parts := splitSexp(strings.TrimSpace(s[1 : len(s)-1]))
	if len(parts) != 4 || parts[0] != "fp" {
		return ""
	}
	bits := ""
	for _, p := range parts[1:] {
		switch {
		case strings.HasPrefix(p, "#b"):
			bits += p[2:]
		case strings.HasPrefix(p, "#x"):
			for _, c := range p[2:] {
				v, ok := new(big.Int).SetString(string(c), 16)
				if !ok {
					return ""
				}
				bits += fmt.Sprintf("%04b", v.Int64())
			}
		default:
			return ""
		}
	}
	v, ok := new(big.Int).SetString(bits, 2)
	if !ok {
		return ""
	}
	if len(bits) == 64 {
		return fmt.Sprintf("math.Float64frombits(0x%x)", v)
	}
	if len(bits) == 32 {
		return fmt.Sprintf("float64(math.Float32frombits(0x%x))", v)
	}
	return ""
}
