package vc

import (
	"fmt"
	"go/types"
	"math/big"
	"strings"

	"verifengine/smt"
)

// Sorts maps Go types to SMT sorts for one obligation universe.
type Sorts struct {
	b        *smt.Builder
	fp       bool // floats as IEEE (true) or reals (false)
	memo     map[string]string
	structs  map[string]*structInfo
	arrays   map[string]*arrayInfo
	tags     map[string]int // dynamic type tags
	tagTypes map[int]types.Type
}

type structInfo struct {
	Sort   string
	Ctor   string
	Fields []string // selector names
	FTypes []types.Type
}

type arrayInfo struct {
	Sort  string
	Ctor  string
	N     int
	Elem  types.Type
	Big   bool // represented as (Array Int E)
	Sels  []string
	ESort string
}

const maxSmallArray = 16

func NewSorts(b *smt.Builder, fp bool) *Sorts {
	s := &Sorts{b: b, fp: fp, memo: map[string]string{}, structs: map[string]*structInfo{}, arrays: map[string]*arrayInfo{}, tags: map[string]int{}}
	b.Declare("sort:Slice", "(declare-datatypes ((Slice 0)) (((mk_slice (s_ref Int) (s_off Int) (s_len Int) (s_cap Int)))))")
	b.Declare("sort:Iface", "(declare-datatypes ((Iface 0)) (((mk_iface (i_tag Int) (i_ref Int)))))")
	b.Declare("sort:Str", "(declare-sort Str 0)")
	b.Declare("fun:strlen", "(declare-fun strlen (Str) Int)")
	b.Declare("fun:strat", "(declare-fun strat (Str Int) Int)")
	return s
}

func (s *Sorts) FloatSort(t types.Type) string {
	if !s.fp {
		return "Real"
	}
	if bt, ok := t.Underlying().(*types.Basic); ok && bt.Kind() == types.Float32 {
		return "(_ FloatingPoint 8 24)"
	}
	return "(_ FloatingPoint 11 53)"
}

func typeKey(t types.Type) string {
	return types.TypeString(t, func(p *types.Package) string { return p.Name() })
}

func shortName(t types.Type) string {
	k := typeKey(t)
	k = strings.NewReplacer("struct{", "st_", "}", "", " ", "_", ";", "_", "*", "P", "[", "_", "]", "_", ".", "_", "(", "_", ")", "_", ",", "_").Replace(k)
	return smt.Sanitize(k)
}

// SortOf returns the SMT sort for a Go type, declaring datatypes on demand.
func (s *Sorts) SortOf(t types.Type) string {
	key := typeKey(t)
	if v, ok := s.memo[key]; ok {
		return v
	}
	var res string
	switch u := t.Underlying().(type) {
	case *types.Basic:
		switch {
		case u.Info()&types.IsBoolean != 0:
			res = "Bool"
		case u.Info()&types.IsInteger != 0:
			res = "Int"
		case u.Info()&types.IsFloat != 0:
			res = s.FloatSort(t)
		case u.Info()&types.IsString != 0:
			res = "Str"
		case u.Kind() == types.UnsafePointer:
			res = "Int"
		case u.Kind() == types.UntypedNil:
			res = "Int"
		default:
			panic(unsupported("basic type " + u.String()))
		}
	case *types.Pointer, *types.Signature, *types.Map, *types.Chan:
		res = "Int"
	case *types.Slice:
		res = "Slice"
	case *types.Interface:
		res = "Iface"
	case *types.Struct:
		res = s.structSort(t, u).Sort
	case *types.Array:
		res = s.arraySort(t, u).Sort
	case *types.Tuple:
		panic(unsupported("tuple as value"))
	case *types.TypeParam:
		res = "TP_" + smt.Sanitize(u.String())
		s.b.Declare("sort:"+res, fmt.Sprintf("(declare-sort %s 0)", res))
	default:
		panic(unsupported(fmt.Sprintf("type %T %s", u, t)))
	}
	s.memo[key] = res
	return res
}

func (s *Sorts) structSort(t types.Type, u *types.Struct) *structInfo {
	// named types with identical underlying structs share one sort, so that Go
	// conversions between them (ChangeType) need no term-level conversion
	key := typeKey(u)
	if si, ok := s.structs[key]; ok {
		return si
	}
	name := "S_" + shortName(t)
	si := &structInfo{Sort: name, Ctor: "mk_" + name}
	s.structs[key] = si
	var fdecl []string
	for i := 0; i < u.NumFields(); i++ {
		f := u.Field(i)
		fs := s.SortOf(f.Type())
		sel := fmt.Sprintf("%s_%s", name, smt.Sanitize(f.Name()))
		if f.Name() == "_" {
			sel = fmt.Sprintf("%s_blank%d", name, i)
		}
		si.Fields = append(si.Fields, sel)
		si.FTypes = append(si.FTypes, f.Type())
		fdecl = append(fdecl, fmt.Sprintf("(%s %s)", sel, fs))
	}
	if u.NumFields() == 0 {
		s.b.Declare("sort:"+name, fmt.Sprintf("(declare-datatypes ((%s 0)) (((%s))))", name, si.Ctor))
	} else {
		s.b.Declare("sort:"+name, fmt.Sprintf("(declare-datatypes ((%s 0)) (((%s %s))))", name, si.Ctor, strings.Join(fdecl, " ")))
	}
	return si
}

func (s *Sorts) StructInfo(t types.Type) *structInfo {
	u, ok := t.Underlying().(*types.Struct)
	if !ok {
		panic(unsupported("not a struct: " + t.String()))
	}
	return s.structSort(t, u)
}

func (s *Sorts) arraySort(t types.Type, u *types.Array) *arrayInfo {
	key := typeKey(u)
	if ai, ok := s.arrays[key]; ok {
		return ai
	}
	es := s.SortOf(u.Elem())
	n := int(u.Len())
	ai := &arrayInfo{N: n, Elem: u.Elem(), ESort: es}
	s.arrays[key] = ai
	if n > maxSmallArray {
		ai.Big = true
		ai.Sort = fmt.Sprintf("(Array Int %s)", es)
		return ai
	}
	name := fmt.Sprintf("A%d_%s", n, shortName(u.Elem()))
	ai.Sort = name
	ai.Ctor = "mk_" + name
	var fdecl []string
	for i := 0; i < n; i++ {
		sel := fmt.Sprintf("%s_e%d", name, i)
		ai.Sels = append(ai.Sels, sel)
		fdecl = append(fdecl, fmt.Sprintf("(%s %s)", sel, es))
	}
	if n == 0 {
		s.b.Declare("sort:"+name, fmt.Sprintf("(declare-datatypes ((%s 0)) (((%s))))", name, ai.Ctor))
	} else {
		s.b.Declare("sort:"+name, fmt.Sprintf("(declare-datatypes ((%s 0)) (((%s %s))))", name, ai.Ctor, strings.Join(fdecl, " ")))
	}
	return ai
}

func (s *Sorts) ArrayInfo(t types.Type) *arrayInfo {
	u, ok := t.Underlying().(*types.Array)
	if !ok {
		panic(unsupported("not an array: " + t.String()))
	}
	return s.arraySort(t, u)
}

// TypeTag returns a stable small integer tag for a dynamic type.
func (s *Sorts) TypeTag(t types.Type) int {
	k := typeKey(t)
	if v, ok := s.tags[k]; ok {
		return v
	}
	v := len(s.tags) + 1
	s.tags[k] = v
	if s.tagTypes == nil {
		s.tagTypes = map[int]types.Type{}
	}
	s.tagTypes[v] = t
	return v
}

// intRange returns (lo, hi, bits, signed, ok) for fixed-width integer kinds that
// are modelled with wrap-around (all but the 64-bit and int/uint kinds).
func intRange(t types.Type) (lo, hi *big.Int, bits int, signed bool, narrow bool) {
	bt, ok := t.Underlying().(*types.Basic)
	if !ok || bt.Info()&types.IsInteger == 0 {
		return nil, nil, 0, false, false
	}
	switch bt.Kind() {
	case types.Int8:
		bits, signed = 8, true
	case types.Int16:
		bits, signed = 16, true
	case types.Int32:
		bits, signed = 32, true
	case types.Int64, types.Int:
		bits, signed = 64, true
	case types.Uint8:
		bits = 8
	case types.Uint16:
		bits = 16
	case types.Uint32:
		bits = 32
	case types.Uint64, types.Uint, types.Uintptr:
		bits = 64
	default:
		return nil, nil, 0, false, false
	}
	one := big.NewInt(1)
	if signed {
		hi = new(big.Int).Sub(new(big.Int).Lsh(one, uint(bits-1)), one)
		lo = new(big.Int).Neg(new(big.Int).Lsh(one, uint(bits-1)))
	} else {
		lo = big.NewInt(0)
		hi = new(big.Int).Sub(new(big.Int).Lsh(one, uint(bits)), one)
	}
	return lo, hi, bits, signed, bits < 64
}

type unsupportedErr struct{ msg string }

func (u unsupportedErr) Error() string { return "unsupported: " + u.msg }

func unsupported(msg string) unsupportedErr { return unsupportedErr{msg} }
