package vc

import (
	"os"
	"fmt"
	"go/types"
	"runtime/debug"
	"sort"
	"strings"
	"time"

	"golang.org/x/tools/go/ssa"

	"verifengine/smt"
)

// FuncResult is the outcome of VC generation for one contract.
type FuncResult struct {
	Name     string
	Contract *FuncContract
	Obls     []*Obligation
	Covers   []*Obligation
	Err      error
	Assumed  []string
	X        *Exec
	FloatMod string
}

func newExec(p *Program, fc *FuncContract) *Exec {
	b := smt.NewBuilder()
	fp := fc.Model == "fp"
	x := &Exec{prog: p, b: b, so: NewSorts(b, fp), fp: fp, safety: fc.Safety, rootC: fc,
		initHeaps: map[string]*smt.Term{}, heapSorts: map[string]string{}, strLits: map[string]*smt.Term{},
		Assumed: map[string]bool{}, oblNames: map[string]int{}, ufDecl: map[string]bool{}, maxInline: 8, defUnroll: 4,
		rangeOf: map[*ssa.Range]types.Type{}, exprTypes: map[Expr]types.Type{}, divAlias: map[int]*smt.Term{}, divRest: map[[2]int]*smt.Term{}}
	x.deadline = time.Now().Add(90 * time.Second)
	if v, ok := fc.Opts["unroll"]; ok {
		fmt.Sscanf(v, "%d", &x.defUnroll)
	}
	if v, ok := fc.Opts["inline"]; ok {
		fmt.Sscanf(v, "%d", &x.maxInline)
	}
	if v, ok := fc.Opts["allocbudget"]; ok {
		// make() sizes must be bounded by a*consumed + b (consumed = ghost count of input bytes read)
		var a, c int64 = 64, 4096
		fmt.Sscanf(v, "%d %d", &a, &c)
		x.allocBudget = func(bc *blockCtx, n *smt.Term) *smt.Term {
			x.registerGhost("G_consumed")
			cons := x.getHeap(bc.st, "G_consumed")
			return x.b.Cmp("<=", n, x.b.Add(x.b.Mul(x.b.Int(a), cons), x.b.Int(c)))
		}
	}
	return x
}

// VerifyFunc generates the obligations for one function contract.
func (p *Program) VerifyFunc(fc *FuncContract) (res *FuncResult) {
	res = &FuncResult{Name: fc.Name, Contract: fc}
	if fc.Model == "" {
		fc.Model = "real"
	}
	res.FloatMod = fc.Model
	f := p.Funcs[fc.Name]
	if f == nil {
		res.Err = fmt.Errorf("function %s not found in the loaded program", fc.Name)
		return
	}
	for name := range fc.InlineCallees {
		if p.Funcs[name] == nil {
			res.Err = fmt.Errorf("%s:%d: inlinecall names an unknown function %s", fc.File, fc.Line, name)
			return
		}
	}
	for name, labels := range fc.UseEnsures {
		cc := p.Contracts.Funcs[name]
		if cc == nil {
			res.Err = fmt.Errorf("%s:%d: useensures names a function without contract: %s", fc.File, fc.Line, name)
			return
		}
		for l := range labels {
			found := false
			for _, e := range cc.Ensures {
				if e.Label == l {
					found = true
				}
			}
			if !found {
				res.Err = fmt.Errorf("%s:%d: useensures: %s has no postcondition labelled %s", fc.File, fc.Line, name, l)
				return
			}
		}
	}
	for name := range fc.AtCall {
		if p.Funcs[name] == nil && !p.isIfaceMethodName(name) {
			res.Err = fmt.Errorf("%s:%d: atcall names an unknown function %s", fc.File, fc.Line, name)
			return
		}
	}
	for at, m := range fc.UseEnsuresAt {
		found := false
		for _, e := range fc.Ensures {
			if e.Label == at {
				found = true
			}
		}
		if !found {
			res.Err = fmt.Errorf("%s:%d: useensures @%s: no postcondition with that label", fc.File, fc.Line, at)
			return
		}
		for name := range m {
			if p.Contracts.Funcs[name] == nil {
				res.Err = fmt.Errorf("%s:%d: useensures names a function without contract: %s", fc.File, fc.Line, name)
				return
			}
		}
	}
	x := newExec(p, fc)
	res.X = x
	defer func() {
		if r := recover(); r != nil {
			switch e := r.(type) {
			case unsupportedErr:
				res.Err = e
			case evalErr:
				res.Err = e
			default:
				res.Err = fmt.Errorf("internal error: %v\n%s", r, debug.Stack())
			}
		}
		for k := range x.Assumed {
			res.Assumed = append(res.Assumed, k)
		}
		sort.Strings(res.Assumed)
		res.Obls = x.obls
		res.Covers = x.covers
	}()
	x.root = f
	if len(f.Blocks) == 0 {
		panic(unsupported("function has no body"))
	}
	x.actCount++
	fr := &Frame{fn: f, act: x.actCount, fc: fc, cells: map[*ssa.Alloc]*cellKey{}, safety: fc.Safety, loops: p.loopsOf(f)}
	env := newEnv(nil)
	vars := map[string]*Val{}
	st := newState()
	for pi, prm := range f.Params {
		v := x.havoc(prm.Type(), "p_"+prm.Name(), x.b.True)
		if _, ok := prm.Type().Underlying().(*types.Pointer); ok {
			x.paramRefs = append(x.paramRefs, v.T)
			x.markOld(v.T)
		}
		if _, ok := prm.Type().Underlying().(*types.Slice); ok {
			x.paramRefs = append(x.paramRefs, x.sRef(v.T))
			x.markOld(x.sRef(v.T))
		}
		env.vals[prm] = v
		vars[prm.Name()] = v
		if pi == 0 && f.Signature.Recv() != nil && fc.Safety {
			if _, ok := prm.Type().Underlying().(*types.Pointer); ok {
				x.axiom(x.b.Not(x.b.Eq(v.T, x.b.Int(0))))
				x.note("method receivers are assumed non-nil")
			}
		}
	}
	for _, fv := range f.FreeVars {
		// captured variable: pointer to the variable's storage
		v := x.havoc(fv.Type(), "fv_"+fv.Name(), x.b.True)
		x.axiom(x.b.Not(x.b.Eq(v.T, x.b.Int(0))))
		x.paramRefs = append(x.paramRefs, v.T)
		x.markOld(v.T)
		env.vals[fv] = v
		// in contracts the captured variable is referred to by name (its value)
		pt := fv.Type().(*types.Pointer).Elem()
		key := x.heapKeyPtr(pt)
		vars[fv.Name()] = &Val{Typ: pt, T: x.sel(x.getHeap(st, key), v.T, x.so.SortOf(pt))}
	}
	// captured variables are distinct variables: their storage does not alias
	for i := range f.FreeVars {
		for j := 0; j < i; j++ {
			a, c := env.vals[f.FreeVars[i]], env.vals[f.FreeVars[j]]
			if a != nil && c != nil && a.T != nil && c.T != nil && a.T.Sort == c.T.Sort {
				x.axiom(x.b.Not(x.b.Eq(a.T, c.T)))
			}
		}
	}
	// a closure's contract may name variables of the enclosing function; if the
	// closure does not capture one of them (any more) it is an arbitrary value
	if par := f.Parent(); par != nil {
		for _, prm := range par.Params {
			if _, ok := vars[prm.Name()]; !ok {
				vars[prm.Name()] = x.havoc(prm.Type(), "outer_"+prm.Name(), x.b.True)
				x.note("closure contract names enclosing variable " + prm.Name() + " that the closure does not capture: treated as arbitrary")
			}
		}
	}
	for _, v := range vars {
		x.collectFloatLeaves(v, 0)
	}
	fr.params = vars
	fr.entry = st.clone()
	ri := &rootInfo{vars: vars, pkg: fnPkg(f), fn: f, fc: fc, entry: fr.entry}
	for _, prm := range f.Params {
		ri.names = append(ri.names, prm.Name())
	}
	x.rootInfo = ri
	x.stack = []*ssa.Function{f}
	ce := &CEnv{x: x, fr: fr, st: fr.entry, old: fr.entry, vars: vars, guard: x.b.True, fc: fc}
	x.evalLets(ce, fc)
	fr.lets = ce.lets
	x.rootVars, x.rootLets, x.rootEntry = vars, ce.lets, fr.entry
	ce.hypo = true
	for _, r := range fc.Requires {
		x.axiom(x.evalBool(ce, r))
	}
	ce.hypo = false
	if (fc.Pure || fc.Assigns != "") && !fc.Trusted {
		ce.env = env
		fr.frameSpec = x.frameSpecOf(fr, ce, fc)
	}
	x.applyUses(ce, fc)
	// vacuity cover: the preconditions (and type facts) must be satisfiable
	x.covers = append(x.covers, &Obligation{Name: "cover:requires", Kind: "cover", Guard: x.b.True, Goal: x.b.False, NHyps: len(x.hyps), Text: "preconditions are satisfiable"})
	pending := map[*ssa.BasicBlock][]*Edge{f.Blocks[0]: {{from: nil, to: f.Blocks[0], cond: x.b.True, st: st, env: env}}}
	x.execRegion(fr, nil, pending, env)
	// postconditions at every return
	for ri, r := range fr.returns {
		pe := &CEnv{x: x, fr: fr, st: r.st, old: fr.entry, vars: map[string]*Val{}, lets: ce.lets, guard: r.cond, fc: fc, env: env, at: r.blk}
		for k, v := range vars {
			pe.vars[k] = v
		}
		var resVal *Val
		switch len(r.vals) {
		case 0:
		case 1:
			resVal = r.vals[0]
		default:
			resVal = &Val{Typ: f.Signature.Results(), Tup: r.vals}
		}
		x.bindResults(pe, f.Signature, resVal)
		if !fc.Trusted && (fc.Pure || fc.Assigns != "") {
			x.frameObligations(fr, ce, fc, r, ri)
		}
		if fc.Opts["publishlast"] != "" {
			x.publishObligations(r, ri)
		}
		for i, e := range fc.Ensures {
			lab := fmt.Sprintf("#%d", i)
			if e.Label != "" {
				lab = ":" + e.Label
			}
			name := fmt.Sprintf("post%s@ret%d", lab, ri)
			x.oblige("post", name, r.cond, x.evalBool(pe, e), r.pos, e.Text, false)
		}
	}
	if len(fr.returns) == 0 {
		x.note("function has no normal return (all paths panic)")
	}
	return
}

// VerifyLemma generates the single obligation of a lemma:
// forall params. requires ==> ensures   (params become free constants).
func (p *Program) VerifyLemma(fc *FuncContract) (res *FuncResult) {
	res = &FuncResult{Name: "lemma " + fc.Name, Contract: fc}
	if fc.Model == "" {
		fc.Model = "real"
	}
	res.FloatMod = fc.Model
	for name := range fc.InlineCallees {
		if p.Funcs[name] == nil {
			res.Err = fmt.Errorf("%s:%d: inlinecall names an unknown function %s", fc.File, fc.Line, name)
			return
		}
	}
	x := newExec(p, fc)
	res.X = x
	defer func() {
		if r := recover(); r != nil {
			switch e := r.(type) {
			case unsupportedErr:
				res.Err = e
			case evalErr:
				res.Err = e
			default:
				res.Err = fmt.Errorf("internal error: %v\n%s", r, debug.Stack())
			}
		}
		for k := range x.Assumed {
			res.Assumed = append(res.Assumed, k)
		}
		sort.Strings(res.Assumed)
		res.Obls = x.obls
		res.Covers = x.covers
	}()
	pkg := p.pkgOfFile(fc.File)
	vars := map[string]*Val{}
	for _, prm := range fc.Params {
		t := p.resolveType(pkg, prm.Type)
		if t == nil {
			panic(evalErr{fmt.Sprintf("lemma %s: cannot resolve type %s", fc.Name, prm.Type)})
		}
		v := x.havoc(t, "l_"+prm.Name, x.b.True)
		if _, ok := t.Underlying().(*types.Pointer); ok {
			x.paramRefs = append(x.paramRefs, v.T)
			x.markOld(v.T)
		}
		if _, ok := t.Underlying().(*types.Slice); ok {
			x.paramRefs = append(x.paramRefs, x.sRef(v.T))
			x.markOld(x.sRef(v.T))
		}
		vars[prm.Name] = v
	}
	st := newState()
	ri := &rootInfo{vars: vars, pkg: pkg, fc: fc, entry: st.clone()}
	for _, prm := range fc.Params {
		ri.names = append(ri.names, prm.Name)
	}
	x.rootInfo = ri
	ce := &CEnv{x: x, st: st, old: st.clone(), vars: vars, guard: x.b.True, fc: fc, pkg: pkg}
	// hypotheses speak about the state before any (ghost-executed) let; a
	// hypothesis that mentions a let-bound name is evaluated after the lets
	var late []*Clause
	for _, r := range fc.Requires {
		var t *smt.Term
		func() {
			defer func() {
				if rec := recover(); rec != nil {
					if _, ok := rec.(evalErr); ok {
						t = nil
						return
					}
					panic(rec)
				}
			}()
			pre := &CEnv{x: x, st: st.clone(), old: ce.old, vars: vars, guard: x.b.True, fc: fc, pkg: pkg}
			t = x.evalBool(pre, r)
		}()
		if t == nil {
			late = append(late, r)
			continue
		}
		x.axiom(t)
	}
	x.evalLets(ce, fc)
	for _, r := range late {
		x.axiom(x.evalBool(ce, r))
	}
	x.applyUses(ce, fc)
	x.covers = append(x.covers, &Obligation{Name: "cover:requires", Kind: "cover", Guard: x.b.True, Goal: x.b.False, NHyps: len(x.hyps), Text: "lemma hypotheses are satisfiable"})
	for i, e := range fc.Ensures {
		lab := fmt.Sprintf("#%d", i)
		if e.Label != "" {
			lab = ":" + e.Label
		}
		x.oblige("lemma", "lemma"+lab, x.b.True, x.evalBool(ce, e), 0, e.Text, false)
	}
	return
}

// SMTText renders one obligation as a complete SMT-LIB2 script.
func (r *FuncResult) SMTText(o *Obligation, expectSat bool) string {
	return r.SMTTextWith(o, nil, !expectSat)
}

var smtBuiltin = map[string]bool{"and": true, "or": true, "not": true, "=>": true, "ite": true, "=": true, "+": true, "-": true, "*": true, "/": true,
	"<": true, "<=": true, ">": true, ">=": true, "select": true, "store": true, "div": true, "mod": true, "to_real": true, "to_int": true,
	"lit": true, "q": true, "mk_slice": true, "mk_iface": true, "s_ref": true, "s_off": true, "s_len": true, "s_cap": true, "i_tag": true, "i_ref": true,
	"distinct": true, "abs": true, "bv2nat": true}

// definedAtoms returns the "defined" atoms of t: fresh constants that are not
// inputs, and applications of uninterpreted functions. Hypotheses constrain
// such atoms; a hypothesis none of whose defined atoms is relevant to the goal
// cannot contribute to its proof and is dropped (sound: fewer hypotheses).
func (x *Exec) definedAtoms(t *smt.Term, memo map[int][]int) []int {
	if v, ok := memo[t.ID]; ok {
		return v
	}
	var out []int
	seen := map[int]bool{}
	add := func(id int) {
		if !seen[id] {
			seen[id] = true
			out = append(out, id)
		}
	}
	if len(t.Args) == 0 && t.Op != "lit" && t.Lit != "bound" {
		if strings.Contains(t.Op, "!") && !strings.HasPrefix(t.Op, "p_") && !strings.HasPrefix(t.Op, "l_") && !strings.HasPrefix(t.Op, "fv_") {
			add(t.ID)
		}
	} else if len(t.Args) > 0 && !smtBuiltin[t.Op] && !x.isStructural(t.Op) {
		add(t.ID)
	}
	for _, a := range t.Args {
		for _, id := range x.definedAtoms(a, memo) {
			add(id)
		}
	}
	memo[t.ID] = out
	return out
}

// isStructural: datatype constructors / selectors / testers and fp / indexed operators.
func (x *Exec) isStructural(op string) bool {
	if strings.HasPrefix(op, "mk_") || strings.HasPrefix(op, "S_") || strings.HasPrefix(op, "A") && strings.Contains(op, "_e") ||
		strings.HasPrefix(op, "fp.") || strings.HasPrefix(op, "(") || strings.HasPrefix(op, "some_") || strings.HasPrefix(op, "none_") || strings.HasPrefix(op, "val_") {
		return true
	}
	return false
}

// SMTTextWith renders obligation o with extra assumptions (case splits).
func (r *FuncResult) SMTTextWith(o *Obligation, extra []*smt.Term, filter bool) string {
	x := r.X
	var sb strings.Builder
	fmt.Fprintf(&sb, "; obligation %s :: %s\n; %s\n", r.Name, o.Name, strings.ReplaceAll(o.Text, "\n", " "))
	if o.Pos != "" {
		fmt.Fprintf(&sb, "; at %s\n", o.Pos)
	}
	sb.WriteString("(set-option :produce-models true)\n(set-logic ALL)\n")
	for _, d := range x.b.Decls {
		sb.WriteString(d.Text)
		sb.WriteByte('\n')
	}
	goal := x.b.And(o.Guard, x.b.Not(o.Goal))
	var hyps []*smt.Term
	seenH := map[int]bool{}
	var addHyp func(h *smt.Term, depth int)
	addHyp = func(h *smt.Term, depth int) {
		// conjunctions are split so that the relevance filter judges each conjunct on
		// its own (a requires clause `a && b` must not be dropped as a whole because
		// `a` is irrelevant to the goal)
		if os.Getenv("VERIF_NOSPLIT") == "" && depth < 3 && h.Op == "and" && len(h.Args) <= 32 && x.hypTag[h.ID] == ([2]string{}) && !x.keepHyp[h.ID] && !containsQuant(h) {
			for _, c := range h.Args {
				addHyp(c, depth+1)
			}
			return
		}
		if !seenH[h.ID] {
			seenH[h.ID] = true
			hyps = append(hyps, h)
		}
	}
	for _, h := range x.hyps[:o.NHyps] {
		addHyp(h, 0)
	}
	if x.rootC != nil && (x.rootC.UseEnsuresAt != nil || x.rootC.UseEnsures != nil) && len(x.hypTag) > 0 {
		// selection of the callee postconditions that are used: the default set
		// (useensures), overridden per own postcondition (useensures @label)
		var sel map[string]map[string]bool
		if strings.HasPrefix(o.Name, "post:") {
			lab := strings.TrimPrefix(o.Name, "post:")
			if i := strings.IndexAny(lab, "@"); i >= 0 {
				lab = lab[:i]
			}
			sel = x.rootC.UseEnsuresAt[lab]
		}
		var kept []*smt.Term
		for _, h := range hyps {
			if tg, ok := x.hypTag[h.ID]; ok {
				cn := normalizeFuncName(tg[0])
				if allowed, has := sel[cn]; has {
					if !allowed[tg[1]] {
						continue
					}
				} else if def, has := x.rootC.UseEnsures[cn]; has && !def[tg[1]] {
					continue
				}
			}
			kept = append(kept, h)
		}
		hyps = kept
	}
	if filter && x.rootC != nil && x.rootC.Opts["nofilter"] == "" {
		memo := map[int][]int{}
		rel := map[int]bool{}
		for _, id := range x.definedAtoms(goal, memo) {
			rel[id] = true
		}
		for _, e := range extra {
			for _, id := range x.definedAtoms(e, memo) {
				rel[id] = true
			}
		}
		included := make([]bool, len(hyps))
		for changed := true; changed; {
			changed = false
			for i, h := range hyps {
				if included[i] {
					continue
				}
				core := h
				for core.Op == "=>" && len(core.Args) == 2 {
					core = core.Args[1]
				}
				atoms := x.definedAtoms(core, memo)
				take := len(atoms) == 0 || containsQuant(h) || x.keepHyp[h.ID]
				if !take {
					for _, id := range atoms {
						if rel[id] {
							take = true
							break
						}
					}
				}
				if take {
					included[i] = true
					for _, id := range atoms {
						if !rel[id] {
							rel[id] = true
							changed = true
						}
					}
				}
			}
		}
		var kept []*smt.Term
		for i, h := range hyps {
			if included[i] {
				kept = append(kept, h)
			}
		}
		hyps = kept
	}
	if len(x.hintDiv) > 0 {
		// a division hint is only useful if the quotient it talks about occurs in
		// the query; otherwise it is dead weight of nonlinear arithmetic
		reach := map[int]bool{}
		var walk func(t *smt.Term)
		walk = func(t *smt.Term) {
			if reach[t.ID] {
				return
			}
			reach[t.ID] = true
			for _, a := range t.Args {
				walk(a)
			}
		}
		walk(goal)
		for _, e := range extra {
			walk(e)
		}
		for _, h := range hyps {
			if _, isHint := x.hintDiv[h.ID]; !isHint {
				walk(h)
			}
		}
		var kept []*smt.Term
		for _, h := range hyps {
			if d, isHint := x.hintDiv[h.ID]; isHint && !reach[d] {
				continue
			}
			kept = append(kept, h)
		}
		hyps = kept
	}
	// trigger seeding: a goal reads rd(store(A, ..), off, i) where quantified
	// hypotheses are triggered by rd(A, off, i); state the (valid) instance of
	// the rd axiom for the base arrays so that those terms exist
	{
		seen := map[int]bool{}
		var seeds []*smt.Term
		var walk func(t *smt.Term)
		walk = func(t *smt.Term) {
			if seen[t.ID] || t.Bound {
				return
			}
			seen[t.ID] = true
			if strings.HasPrefix(t.Op, "rd_") && len(t.Args) == 3 {
				base := t.Args[0]
				for n := 0; base.Op == "store" && n < 8; n++ {
					base = base.Args[0]
					seeds = append(seeds, x.b.Eq(x.b.App(t.Op, t.Sort, base, t.Args[1], t.Args[2]),
						x.b.App("select", t.Sort, base, x.b.Add(t.Args[1], t.Args[2]))))
				}
			}
			for _, a := range t.Args {
				walk(a)
			}
		}
		walk(goal)
		if len(seeds) <= 32 {
			hyps = append(hyps, seeds...)
		}
	}
	roots := append(hyps, extra...)
	// real model: skolem constants of float sort are finite (strictly inside +-Inf)
	if x.ufDecl["infax"] && !x.fp {
		inf := x.b.Const("math_inf", "Real")
		for _, c := range x.skolems {
			if c.Sort == "Real" {
				roots = append(roots, x.b.And(x.b.Cmp("<", c, inf), x.b.Cmp("<", x.b.Neg(inf), c)))
			}
		}
	}
	if x.ufDecl["infax"] && !x.fp {
		// inputs of float type are finite too
		inf := x.b.Const("math_inf", "Real")
		for _, c := range x.finiteInputs {
			roots = append(roots, x.b.And(x.b.Cmp("<", c, inf), x.b.Cmp("<", x.b.Neg(inf), c)))
		}
	}
	roots = append(roots, goal)
	pr := x.b.NewPrinter()
	sb.WriteString(pr.Script(roots))
	sb.WriteString("(check-sat)\n")
	return sb.String()
}

func containsQuant(t *smt.Term) bool {
	return containsQuantM(t, map[int]bool{})
}

func containsQuantM(t *smt.Term, seen map[int]bool) bool {
	if t.Op == "q" {
		return true
	}
	if seen[t.ID] {
		return false
	}
	seen[t.ID] = true
	for _, a := range t.Args {
		if containsQuantM(a, seen) {
			return true
		}
	}
	return false
}

// CaseSplits proposes case splits for a hard obligation: the conditions of the
// ite terms reachable from the goal (closed, at most k of them), as all sign
// combinations. The obligation holds iff it holds in every case.
func (r *FuncResult) CaseSplits(o *Obligation, k int) [][]*smt.Term {
	x := r.X
	var conds []*smt.Term
	seen := map[int]bool{}
	seenC := map[int]bool{}
	var walk func(t *smt.Term)
	walk = func(t *smt.Term) {
		if seen[t.ID] || len(conds) >= k {
			return
		}
		seen[t.ID] = true
		if t.Op == "ite" && !t.Args[0].Bound && t.Sort != "Bool" {
			c := t.Args[0]
			if c.Op == "not" {
				c = c.Args[0]
			}
			if !seenC[c.ID] {
				seenC[c.ID] = true
				conds = append(conds, c)
			}
		}
		for _, a := range t.Args {
			walk(a)
		}
	}
	walk(o.Goal)
	walk(o.Guard)
	if len(conds) == 0 {
		return nil
	}
	var out [][]*smt.Term
	n := len(conds)
	for mask := 0; mask < 1<<uint(n); mask++ {
		var cs []*smt.Term
		for i, c := range conds {
			if mask&(1<<uint(i)) != 0 {
				cs = append(cs, c)
			} else {
				cs = append(cs, x.b.Not(c))
			}
		}
		out = append(out, cs)
	}
	return out
}

// Trivial reports whether the obligation is discharged by the simplifier alone.
func (r *FuncResult) Trivial(o *Obligation) bool {
	return o.Goal == r.X.b.True || o.Guard == r.X.b.False
}

// ModelQuery returns text to append after check-sat to obtain input values.
func (r *FuncResult) ModelQuery() string {
	return "(get-model)\n"
}

func (x *Exec) markOld(t *smt.Term) {
	if x.oldSet == nil {
		x.oldSet = map[int]bool{}
	}
	x.oldSet[t.ID] = true
	x.axiom(x.b.Cmp("<", t, x.b.Const("alloc0", "Int")))
}

// Builder exposes the SMT builder of the run (for replay queries).
func (x *Exec) Builder() *smt.Builder { return x.b }

// applyUses instantiates proved lemmas: `use name(args)` obliges the lemma's
// hypotheses for the arguments and then assumes its conclusions.
func (x *Exec) applyUses(ce *CEnv, fc *FuncContract) {
	for _, name := range fc.UseAll {
		x.useAll(ce, name)
	}
	for ui, u := range fc.Uses {
		call, ok := u.E.(*ECall)
		if !ok {
			panic(evalErr{fmt.Sprintf("%s:%d: use needs lemma(args)", u.File, u.Line)})
		}
		id, ok := call.Fun.(*EIdent)
		if !ok {
			panic(evalErr{fmt.Sprintf("%s:%d: use needs lemma(args)", u.File, u.Line)})
		}
		lem := x.prog.Contracts.Lemmas[id.Name]
		if lem == nil {
			panic(evalErr{fmt.Sprintf("%s:%d: unknown lemma %s", u.File, u.Line, id.Name)})
		}
		if len(call.Args) != len(lem.Params) {
			panic(evalErr{fmt.Sprintf("%s:%d: lemma %s expects %d arguments", u.File, u.Line, id.Name, len(lem.Params))})
		}
		lpkg := x.prog.pkgOfFile(lem.File)
		vars := map[string]*Val{}
		for i, prm := range lem.Params {
			v := x.eval(ce, call.Args[i])
			if t := x.prog.resolveType(lpkg, prm.Type); t != nil {
				v = x.coerce(v, t)
			}
			vars[prm.Name] = v
		}
		le := &CEnv{x: x, st: ce.st, old: ce.st, vars: vars, guard: x.b.True, fc: lem, pkg: lpkg}
		x.evalLets(le, lem)
		for i, r := range lem.Requires {
			x.oblige("pre@use", fmt.Sprintf("pre@use(%s)#%d.%d", id.Name, ui, i), x.b.True, x.evalBool(le, r), 0, r.Text, false)
		}
		for _, e := range lem.Ensures {
			x.axiom(x.evalBool(le, e))
		}
		x.note("uses lemma " + id.Name + " (proved separately as its own obligation)")
	}
}

// useAll assumes a separately proved lemma in universally quantified form,
// triggered by the uninterpreted applications occurring in its conclusion.
func (x *Exec) useAll(ce *CEnv, name string) {
	lem := x.prog.Contracts.Lemmas[name]
	if lem == nil {
		panic(evalErr{"unknown lemma " + name})
	}
	lpkg := x.prog.pkgOfFile(lem.File)
	vars := map[string]*Val{}
	var bvs []*smt.Term
	x.qseq++
	for _, prm := range lem.Params {
		t := x.prog.resolveType(lpkg, prm.Type)
		if t == nil {
			panic(evalErr{"lemma " + name + ": cannot resolve type " + prm.Type})
		}
		bv := x.b.BoundVar(fmt.Sprintf("%s!u%d", prm.Name, x.qseq), x.so.SortOf(t))
		vars[prm.Name] = &Val{Typ: t, T: bv}
		bvs = append(bvs, bv)
	}
	le := &CEnv{x: x, st: ce.st, old: ce.st, vars: vars, guard: x.b.True, fc: lem, pkg: lpkg, depth: 3}
	var pre []*smt.Term
	for _, r := range lem.Requires {
		pre = append(pre, x.evalBool(le, r))
	}
	for _, e := range lem.Ensures {
		body := x.evalBool(le, e)
		// patterns: maximal uninterpreted applications mentioning bound variables
		var pats []*smt.Term
		seen := map[int]bool{}
		var walk func(t *smt.Term)
		walk = func(t *smt.Term) {
			if !t.Bound || seen[t.ID] {
				return
			}
			seen[t.ID] = true
			if len(t.Args) > 0 && (strings.HasPrefix(t.Op, "pf_") || strings.HasPrefix(t.Op, "m_") || strings.HasPrefix(t.Op, "apply_")) {
				pats = append(pats, t)
				return
			}
			for _, a := range t.Args {
				walk(a)
			}
		}
		walk(body)
		q := x.b.Quant("forall", bvs, x.b.Implies(x.b.And(pre...), body))
		if len(pats) > 0 {
			q = x.b.QuantMulti("forall", bvs, x.b.Implies(x.b.And(pre...), body), pats)
		}
		x.hyps = append(x.hyps, q)
	}
	x.note("assumes lemma " + name + " in quantified form (proved separately as its own obligation)")
}

// frameSpec is the parsed `assigns` clause (or `pure`) of the function under contract.
type frameSpec struct {
	whole map[string]bool
	cells map[string][]*assignTarget
}

func (x *Exec) frameSpecOf(fr *Frame, entry *CEnv, fc *FuncContract) *frameSpec {
	fs := &frameSpec{whole: map[string]bool{}, cells: map[string][]*assignTarget{}}
	if fc.Pure {
		return fs
	}
	ce := &CEnv{x: x, fr: fr, st: fr.entry, old: fr.entry, vars: entry.vars, lets: entry.lets, guard: x.b.True, fc: fc, env: entry.env}
	for _, k := range strings.Fields(strings.ReplaceAll(fc.Assigns, ",", " ")) {
		if as := x.assignLoc(ce, k); as != nil {
			for ; as != nil; as = as.next {
				fs.cells[as.key] = append(fs.cells[as.key], as)
			}
			continue
		}
		x.registerGhost(k)
		fs.whole[x.resolveHeapName(ce, k)] = true
	}
	return fs
}

// frameFormula: heap k in state value h1 agrees with its entry value on every
// location that existed at entry and is not listed. nil if nothing to state.
func (x *Exec) frameFormula(fs *frameSpec, k string, h1 *smt.Term) *smt.Term {
	if strings.HasPrefix(k, "G_") || strings.HasPrefix(k, "GA_") || fs.whole[k] || k == "HMlen" {
		return nil
	}
	h0 := x.initHeap(k)
	if h1 == h0 {
		return nil
	}
	a0 := x.b.Const("alloc0", "Int")
	x.qseq++
	rv := x.b.BoundVar(fmt.Sprintf("r!f%d", x.qseq), "Int")
	inner := strings.TrimSuffix(strings.TrimPrefix(x.heapSorts[k], "(Array Int "), ")")
	old := x.b.And(x.b.Cmp("<", x.b.Int(0), rv), x.b.Cmp("<", rv, a0))
	if strings.HasPrefix(k, "HS_") && len(fs.cells[k]) > 0 {
		jv := x.b.BoundVar(fmt.Sprintf("j!f%d", x.qseq), "Int")
		es := strings.TrimSuffix(strings.TrimPrefix(inner, "(Array Int "), ")")
		var notAllowed []*smt.Term
		for _, as := range fs.cells[k] {
			notAllowed = append(notAllowed, x.b.Not(x.b.And(x.b.Eq(rv, as.ref), x.b.Eq(jv, as.idx))))
		}
		body := x.b.Implies(x.b.And(append([]*smt.Term{old}, notAllowed...)...),
			x.b.Eq(x.b.App("select", es, x.b.App("select", inner, h1, rv), jv), x.b.App("select", es, x.b.App("select", inner, h0, rv), jv)))
		return x.b.Quant("forall", []*smt.Term{rv, jv}, body)
	}
	var notAllowed []*smt.Term
	for _, as := range fs.cells[k] {
		notAllowed = append(notAllowed, x.b.Not(x.b.Eq(rv, as.ref)))
	}
	body := x.b.Implies(x.b.And(append([]*smt.Term{old}, notAllowed...)...),
		x.b.Eq(x.b.App("select", inner, h1, rv), x.b.App("select", inner, h0, rv)))
	return x.b.Quant("forall", []*smt.Term{rv}, body)
}

// frameObligations: a function with an `assigns` clause changes, among the
// memory that existed at entry, only what the clause lists (whole heaps H(T) /
// HS(T), single cells *p, single elements s[i]).
func (x *Exec) frameObligations(fr *Frame, entry *CEnv, fc *FuncContract, r *retEdge, ri int) {
	fs := fr.frameSpec
	if fs == nil {
		fs = x.frameSpecOf(fr, entry, fc)
	}
	var keys []string
	for k := range r.st.heaps {
		keys = append(keys, k)
	}
	sort.Strings(keys)
	for _, k := range keys {
		if f := x.frameFormula(fs, k, r.st.heaps[k]); f != nil {
			x.oblige("frame", fmt.Sprintf("frame(%s)@ret%d", k, ri), r.cond, f, r.pos,
				"assigns: memory that existed at entry is unchanged outside the listed locations ("+k+")", false)
		}
	}
}

// publishObligations: see publishSnapshot. On a path where the publishing call
// ran, every heap equals its value right after that call.
func (x *Exec) publishObligations(r *retEdge, ri int) {
	if !x.publishSeen {
		return
	}
	pub := x.b.Eq(x.getHeap(r.st, "G_published"), x.b.Int(1))
	var keys []string
	for k := range r.st.heaps {
		if strings.HasPrefix(k, "G_") || strings.HasPrefix(k, "GA_") || strings.HasPrefix(k, "GP_") {
			continue
		}
		keys = append(keys, k)
	}
	sort.Strings(keys)
	for _, k := range keys {
		h1 := r.st.heaps[k]
		var h0 *smt.Term
		if g, ok := r.st.heaps["GP_"+k]; ok {
			h0 = g
		} else if _, ok := x.heapSorts["GP_"+k]; ok {
			h0 = x.getHeap(r.st, "GP_"+k)
		} else {
			h0 = x.initHeap(k)
		}
		if h0 == h1 {
			continue
		}
		x.oblige("publish", fmt.Sprintf("publishlast(%s)@ret%d", k, ri), r.cond, x.b.Implies(pub, x.b.Eq(h1, h0)), r.pos,
			"nothing is written after the publishing call ("+k+")", false)
	}
}

// collectFloatLeaves records the float-typed leaves of an input value (real model:
// they are finite, i.e. strictly between the symbolic -Inf and +Inf).
func (x *Exec) collectFloatLeaves(v *Val, depth int) {
	if v == nil || v.T == nil || depth > 2 || x.fp {
		return
	}
	if isFloat(v.Typ) {
		x.finiteInputs = append(x.finiteInputs, v.T)
		return
	}
	if st, ok := v.Typ.Underlying().(*types.Struct); ok {
		for i := 0; i < st.NumFields(); i++ {
			ft := st.Field(i).Type()
			if isFloat(ft) || isStructLike(ft) {
				x.collectFloatLeaves(&Val{Typ: ft, T: x.fieldOf(v.T, v.Typ, i)}, depth+1)
			}
		}
	}
}
