// Package smt is a small hash-consed SMT-LIB2 term builder with a
// constant-folding simplifier and a DAG printer.
package smt

import (
	"fmt"
	"math/big"
	"sort"
	"strings"
)

// Term is an immutable SMT term node. Terms are hash-consed per Builder.
type Term struct {
	Op    string // operator / symbol; "lit" for literals; "q" for quantifiers
	Args  []*Term
	Sort  string
	Lit   string   // literal text for Op=="lit"
	IntV  *big.Int // set for integer literals
	RatV  *big.Rat // set for real literals
	Bound bool     // contains a bound variable (cannot be hoisted)
	ID    int
	// quantifier info
	QKind string   // "forall" / "exists"
	QVars []string // "(name Sort)" entries
	Pat   []*Term  // optional patterns
	Multi bool     // Pat is one multi-pattern (all must match) rather than alternatives
}

// Decl is a top-level declaration printed in the preamble.
type Decl struct {
	Text string
}

// Builder owns a term universe.
type Builder struct {
	tab    map[string]*Term
	nextID int
	Decls  []Decl
	declOK map[string]bool
	fresh  map[string]int
	True   *Term
	False  *Term
}

func NewBuilder() *Builder {
	b := &Builder{tab: map[string]*Term{}, declOK: map[string]bool{}, fresh: map[string]int{}}
	b.True = b.mk(&Term{Op: "lit", Lit: "true", Sort: "Bool"})
	b.False = b.mk(&Term{Op: "lit", Lit: "false", Sort: "Bool"})
	return b
}

func (b *Builder) key(t *Term) string {
	var sb strings.Builder
	sb.WriteString(t.Op)
	sb.WriteByte('|')
	sb.WriteString(t.Lit)
	sb.WriteByte('|')
	sb.WriteString(t.Sort)
	if t.Op == "q" {
		sb.WriteString(t.QKind)
		sb.WriteString(strings.Join(t.QVars, ","))
		for _, p := range t.Pat {
			fmt.Fprintf(&sb, "p%d", p.ID)
		}
	}
	for _, a := range t.Args {
		fmt.Fprintf(&sb, ",%d", a.ID)
	}
	return sb.String()
}

func (b *Builder) mk(t *Term) *Term {
	k := b.key(t)
	if old, ok := b.tab[k]; ok {
		return old
	}
	for _, a := range t.Args {
		if a.Bound {
			t.Bound = true
		}
	}
	b.nextID++
	t.ID = b.nextID
	b.tab[k] = t
	return t
}

// Declare adds a raw declaration once (keyed by key).
func (b *Builder) Declare(key, text string) {
	if b.declOK[key] {
		return
	}
	b.declOK[key] = true
	b.Decls = append(b.Decls, Decl{Text: text})
}

func (b *Builder) Declared(key string) bool { return b.declOK[key] }

// Fresh returns a fresh declared constant.
func (b *Builder) Fresh(prefix, sort string) *Term {
	prefix = Sanitize(prefix)
	b.fresh[prefix]++
	name := fmt.Sprintf("%s!%d", prefix, b.fresh[prefix])
	b.Declare("const:"+name, fmt.Sprintf("(declare-fun %s () %s)", name, sort))
	return b.mk(&Term{Op: name, Sort: sort})
}

// Const returns a named declared constant (declared once).
func (b *Builder) Const(name, sort string) *Term {
	name = Sanitize(name)
	b.Declare("const:"+name, fmt.Sprintf("(declare-fun %s () %s)", name, sort))
	return b.mk(&Term{Op: name, Sort: sort})
}

// BoundVar makes a bound variable term.
func (b *Builder) BoundVar(name, sort string) *Term {
	t := b.mk(&Term{Op: name, Sort: sort, Lit: "bound"})
	t.Bound = true
	return t
}

// Sanitize makes an SMT-LIB simple symbol.
func Sanitize(s string) string {
	var sb strings.Builder
	for _, r := range s {
		switch {
		case r >= 'a' && r <= 'z', r >= 'A' && r <= 'Z', r >= '0' && r <= '9', r == '_', r == '!', r == '.':
			sb.WriteRune(r)
		case r == '*':
			sb.WriteString("P")
		case r == '[' || r == ']':
			sb.WriteString("_")
		default:
			sb.WriteString("_")
		}
	}
	return sb.String()
}

// App builds an application with no simplification.
func (b *Builder) App(op, sort string, args ...*Term) *Term {
	return b.mk(&Term{Op: op, Sort: sort, Args: args})
}

func (b *Builder) Int(n int64) *Term { return b.IntBig(big.NewInt(n)) }

func (b *Builder) IntBig(n *big.Int) *Term {
	var lit string
	if n.Sign() < 0 {
		lit = "(- " + new(big.Int).Neg(n).String() + ")"
	} else {
		lit = n.String()
	}
	return b.mk(&Term{Op: "lit", Lit: lit, Sort: "Int", IntV: new(big.Int).Set(n)})
}

func (b *Builder) Real(r *big.Rat) *Term {
	var lit string
	abs := new(big.Rat).Abs(r)
	if abs.IsInt() {
		lit = abs.Num().String() + ".0"
	} else {
		lit = "(/ " + abs.Num().String() + ".0 " + abs.Denom().String() + ".0)"
	}
	if r.Sign() < 0 {
		lit = "(- " + lit + ")"
	}
	return b.mk(&Term{Op: "lit", Lit: lit, Sort: "Real", RatV: new(big.Rat).Set(r)})
}

func (b *Builder) Raw(lit, sort string) *Term {
	return b.mk(&Term{Op: "lit", Lit: lit, Sort: sort})
}

func (b *Builder) Bool(v bool) *Term {
	if v {
		return b.True
	}
	return b.False
}

func (b *Builder) Not(a *Term) *Term {
	if a == b.True {
		return b.False
	}
	if a == b.False {
		return b.True
	}
	if a.Op == "not" {
		return a.Args[0]
	}
	return b.mk(&Term{Op: "not", Sort: "Bool", Args: []*Term{a}})
}

func (b *Builder) And(as ...*Term) *Term {
	var out []*Term
	seen := map[int]bool{}
	for _, a := range as {
		if a == b.True {
			continue
		}
		if a == b.False {
			return b.False
		}
		if a.Op == "and" {
			for _, x := range a.Args {
				if !seen[x.ID] {
					seen[x.ID] = true
					out = append(out, x)
				}
			}
			continue
		}
		if !seen[a.ID] {
			seen[a.ID] = true
			out = append(out, a)
		}
	}
	for _, a := range out {
		if a.Op == "not" && seen[a.Args[0].ID] {
			return b.False
		}
	}
	if len(out) == 0 {
		return b.True
	}
	if len(out) == 1 {
		return out[0]
	}
	return b.mk(&Term{Op: "and", Sort: "Bool", Args: out})
}

func (b *Builder) Or(as ...*Term) *Term {
	var out []*Term
	seen := map[int]bool{}
	for _, a := range as {
		if a == b.False {
			continue
		}
		if a == b.True {
			return b.True
		}
		if a.Op == "or" {
			for _, x := range a.Args {
				if !seen[x.ID] {
					seen[x.ID] = true
					out = append(out, x)
				}
			}
			continue
		}
		if !seen[a.ID] {
			seen[a.ID] = true
			out = append(out, a)
		}
	}
	for _, a := range out {
		if a.Op == "not" && seen[a.Args[0].ID] {
			return b.True
		}
	}
	if len(out) == 0 {
		return b.False
	}
	if len(out) == 1 {
		return out[0]
	}
	return b.mk(&Term{Op: "or", Sort: "Bool", Args: out})
}

func (b *Builder) Implies(a, c *Term) *Term {
	if a == b.True {
		return c
	}
	if a == b.False || c == b.True {
		return b.True
	}
	if c == b.False {
		return b.Not(a)
	}
	return b.mk(&Term{Op: "=>", Sort: "Bool", Args: []*Term{a, c}})
}

func (b *Builder) Ite(c, x, y *Term) *Term {
	if c == b.True {
		return x
	}
	if c == b.False {
		return y
	}
	if x == y {
		return x
	}
	if x.Sort == "Bool" {
		if x == b.True && y == b.False {
			return c
		}
		if x == b.False && y == b.True {
			return b.Not(c)
		}
		if x == b.True {
			return b.Or(c, y)
		}
		if y == b.False {
			return b.And(c, x)
		}
		if x == b.False {
			return b.And(b.Not(c), y)
		}
		if y == b.True {
			return b.Or(b.Not(c), x)
		}
	}
	return b.mk(&Term{Op: "ite", Sort: x.Sort, Args: []*Term{c, x, y}})
}

func (b *Builder) Eq(x, y *Term) *Term {
	if x == y {
		return b.True
	}
	if x.IntV != nil && y.IntV != nil {
		return b.Bool(x.IntV.Cmp(y.IntV) == 0)
	}
	if x.RatV != nil && y.RatV != nil {
		return b.Bool(x.RatV.Cmp(y.RatV) == 0)
	}
	if x.Sort == "Bool" {
		if x == b.True {
			return y
		}
		if y == b.True {
			return x
		}
		if x == b.False {
			return b.Not(y)
		}
		if y == b.False {
			return b.Not(x)
		}
	}
	if x.ID > y.ID {
		x, y = y, x
	}
	return b.mk(&Term{Op: "=", Sort: "Bool", Args: []*Term{x, y}})
}

// Arithmetic (Int or Real decided by operand sort).
func (b *Builder) Add(x, y *Term) *Term {
	if x.IntV != nil && y.IntV != nil {
		return b.IntBig(new(big.Int).Add(x.IntV, y.IntV))
	}
	if x.RatV != nil && y.RatV != nil {
		return b.Real(new(big.Rat).Add(x.RatV, y.RatV))
	}
	if isZero(x) {
		return y
	}
	if isZero(y) {
		return x
	}
	// (p + q) + p*(-1)  =  q   (a point moved by a vector, minus the point)
	if x.Op == "+" && len(x.Args) == 2 && y.Op == "*" && len(y.Args) == 2 && x.Sort == "Real" {
		isMinusOne := func(t *Term) bool { return t.RatV != nil && t.RatV.Cmp(big.NewRat(-1, 1)) == 0 }
		var neg *Term
		if isMinusOne(y.Args[1]) {
			neg = y.Args[0]
		} else if isMinusOne(y.Args[0]) {
			neg = y.Args[1]
		}
		if neg != nil {
			if x.Args[0] == neg {
				return x.Args[1]
			}
			if x.Args[1] == neg {
				return x.Args[0]
			}
		}
	}
	// (a + c1) + c2
	if y.IntV != nil && x.Op == "+" && len(x.Args) == 2 && x.Args[1].IntV != nil {
		return b.Add(x.Args[0], b.IntBig(new(big.Int).Add(x.Args[1].IntV, y.IntV)))
	}
	return b.mk(&Term{Op: "+", Sort: x.Sort, Args: []*Term{x, y}})
}

func (b *Builder) Sub(x, y *Term) *Term {
	if x.IntV != nil && y.IntV != nil {
		return b.IntBig(new(big.Int).Sub(x.IntV, y.IntV))
	}
	if x.RatV != nil && y.RatV != nil {
		return b.Real(new(big.Rat).Sub(x.RatV, y.RatV))
	}
	if isZero(y) {
		return x
	}
	if x == y {
		return b.zero(x.Sort)
	}
	if y.IntV != nil {
		return b.Add(x, b.IntBig(new(big.Int).Neg(y.IntV)))
	}
	return b.mk(&Term{Op: "-", Sort: x.Sort, Args: []*Term{x, y}})
}

func (b *Builder) zero(sort string) *Term {
	if sort == "Int" {
		return b.Int(0)
	}
	return b.Real(new(big.Rat))
}

func (b *Builder) Neg(x *Term) *Term {
	if x.IntV != nil {
		return b.IntBig(new(big.Int).Neg(x.IntV))
	}
	if x.RatV != nil {
		return b.Real(new(big.Rat).Neg(x.RatV))
	}
	return b.mk(&Term{Op: "-", Sort: x.Sort, Args: []*Term{x}})
}

func (b *Builder) Mul(x, y *Term) *Term {
	if x.IntV != nil && y.IntV != nil {
		return b.IntBig(new(big.Int).Mul(x.IntV, y.IntV))
	}
	if x.RatV != nil && y.RatV != nil {
		return b.Real(new(big.Rat).Mul(x.RatV, y.RatV))
	}
	if isZero(x) || isZero(y) {
		return b.zero(x.Sort)
	}
	if isOne(x) {
		return y
	}
	if isOne(y) {
		return x
	}
	return b.mk(&Term{Op: "*", Sort: x.Sort, Args: []*Term{x, y}})
}

func isZero(x *Term) bool {
	return (x.IntV != nil && x.IntV.Sign() == 0) || (x.RatV != nil && x.RatV.Sign() == 0)
}
func isOne(x *Term) bool {
	return (x.IntV != nil && x.IntV.Cmp(big.NewInt(1)) == 0) || (x.RatV != nil && x.RatV.Cmp(big.NewRat(1, 1)) == 0)
}

// RDiv is real division.
func (b *Builder) RDiv(x, y *Term) *Term {
	if x.RatV != nil && y.RatV != nil && y.RatV.Sign() != 0 {
		return b.Real(new(big.Rat).Quo(x.RatV, y.RatV))
	}
	if isOne(y) {
		return x
	}
	return b.mk(&Term{Op: "/", Sort: "Real", Args: []*Term{x, y}})
}

// Cmp builds <, <=, >, >= on Int/Real.
func (b *Builder) Cmp(op string, x, y *Term) *Term {
	var c int
	known := false
	if x.IntV != nil && y.IntV != nil {
		c, known = x.IntV.Cmp(y.IntV), true
	} else if x.RatV != nil && y.RatV != nil {
		c, known = x.RatV.Cmp(y.RatV), true
	}
	if known {
		switch op {
		case "<":
			return b.Bool(c < 0)
		case "<=":
			return b.Bool(c <= 0)
		case ">":
			return b.Bool(c > 0)
		case ">=":
			return b.Bool(c >= 0)
		}
	}
	if x == y {
		return b.Bool(op == "<=" || op == ">=")
	}
	// base + c1  op  base + c2   (integer sums with a common symbolic base)
	if x.Sort == "Int" {
		bx, cx := splitConst(x)
		by, cy := splitConst(y)
		if bx == by && bx != nil {
			return b.Cmp(op, b.IntBig(cx), b.IntBig(cy))
		}
	}
	return b.mk(&Term{Op: op, Sort: "Bool", Args: []*Term{x, y}})
}

// splitConst writes an integer term as base + constant.
func splitConst(t *Term) (*Term, *big.Int) {
	if t.Op == "+" && len(t.Args) == 2 && t.Args[1].IntV != nil {
		return t.Args[0], t.Args[1].IntV
	}
	if t.IntV != nil {
		return nil, t.IntV
	}
	return t, big.NewInt(0)
}

// QuantMulti builds a quantifier with one multi-pattern.
func (b *Builder) QuantMulti(kind string, vars []*Term, body *Term, multi []*Term) *Term {
	t := b.Quant(kind, vars, body, multi...)
	if t.Op == "q" {
		t.Multi = true
	}
	return t
}

// Quant builds a quantifier; vars are bound-variable terms.
func (b *Builder) Quant(kind string, vars []*Term, body *Term, pats ...*Term) *Term {
	if body == b.True || body == b.False {
		return body
	}
	var qv []string
	for _, v := range vars {
		qv = append(qv, fmt.Sprintf("(%s %s)", v.Op, v.Sort))
	}
	// forall v. (g => forall w. B)  ==  forall v w. (g => B): one quantifier with
	// two variables instantiates far better than a nested pair
	if kind == "forall" && len(pats) == 0 {
		g, inner := (*Term)(nil), body
		if body.Op == "=>" && len(body.Args) == 2 {
			g, inner = body.Args[0], body.Args[1]
		}
		if inner.Op == "q" && inner.QKind == "forall" && len(inner.Pat) == 0 && !inner.Multi {
			clash := false
			for _, a := range qv {
				for _, c := range inner.QVars {
					if a == c {
						clash = true
					}
				}
			}
			if !clash {
				ib := inner.Args[0]
				nb := ib
				if g != nil {
					if ib.Op == "=>" && len(ib.Args) == 2 {
						nb = b.Implies(b.And(g, ib.Args[0]), ib.Args[1])
					} else {
						nb = b.Implies(g, ib)
					}
				}
				qv = append(qv, inner.QVars...)
				body = nb
				for _, c := range inner.QVars {
					name := strings.TrimPrefix(strings.Fields(c)[0], "(")
					vars = append(append([]*Term{}, vars...), &Term{Op: name, Lit: "bound"})
				}
			}
		}
	}
	t := &Term{Op: "q", Sort: "Bool", Args: []*Term{body}, QKind: kind, QVars: qv, Pat: pats}
	t = b.mk(t)
	// Bound flag: conservatively true if body mentions other bound vars; we
	// recompute: a quantifier closes its own vars only.
	t.Bound = containsBoundOtherThan(body, vars)
	return t
}

func containsBoundOtherThan(t *Term, vars []*Term) bool {
	if !t.Bound {
		return false
	}
	own := map[string]bool{}
	for _, v := range vars {
		own[v.Op] = true
	}
	seen := map[int]bool{}
	var walk func(t *Term, own map[string]bool) bool
	walk = func(t *Term, own map[string]bool) bool {
		if !t.Bound || seen[t.ID] {
			return false
		}
		seen[t.ID] = true
		if t.Lit == "bound" {
			return !own[t.Op]
		}
		if t.Op == "q" {
			// inner quantifier: its Bound flag is already exact w.r.t. its own vars,
			// but may reference our vars; walk body with extended own set.
			o2 := map[string]bool{}
			for k := range own {
				o2[k] = true
			}
			for _, qv := range t.QVars {
				name := strings.Fields(strings.Trim(qv, "()"))[0]
				o2[name] = true
			}
			return walk(t.Args[0], o2)
		}
		for _, a := range t.Args {
			if walk(a, own) {
				return true
			}
		}
		return false
	}
	return walk(t, own)
}

// ---------------------------------------------------------------------
// Printing

// Printer prints a set of root terms as a script body with shared closed
// subterms hoisted into define-funs.
type Printer struct {
	b      *Builder
	refs   map[int]int
	named  map[int]string
	order  []*Term
	visitd map[int]bool
}

func (b *Builder) NewPrinter() *Printer {
	return &Printer{b: b, refs: map[int]int{}, named: map[int]string{}, visitd: map[int]bool{}}
}

func (p *Printer) count(t *Term) {
	p.refs[t.ID]++
	if p.refs[t.ID] > 1 {
		return
	}
	for _, a := range t.Args {
		p.count(a)
	}
	for _, a := range t.Pat {
		p.count(a)
	}
}

// Script returns SMT text: define-funs for shared subterms followed by the
// given assertion lines. roots[i] is asserted as (assert roots[i]).
func (p *Printer) Script(roots []*Term) string {
	for _, r := range roots {
		p.count(r)
	}
	var sb strings.Builder
	// collect hoistable nodes in ID (topological) order
	var nodes []*Term
	seen := map[int]bool{}
	var walk func(t *Term)
	walk = func(t *Term) {
		if seen[t.ID] {
			return
		}
		seen[t.ID] = true
		for _, a := range t.Args {
			walk(a)
		}
		for _, a := range t.Pat {
			walk(a)
		}
		nodes = append(nodes, t)
	}
	for _, r := range roots {
		walk(r)
	}
	sort.Slice(nodes, func(i, j int) bool { return nodes[i].ID < nodes[j].ID })
	for _, n := range nodes {
		if n.Bound || len(n.Args) == 0 || n.Op == "lit" {
			continue
		}
		if p.refs[n.ID] > 1 || size(n) > 60 {
			name := fmt.Sprintf("t!%d", n.ID)
			fmt.Fprintf(&sb, "(define-fun %s () %s %s)\n", name, n.Sort, p.str(n, true))
			p.named[n.ID] = name
		}
	}
	for _, r := range roots {
		fmt.Fprintf(&sb, "(assert %s)\n", p.str(r, false))
	}
	return sb.String()
}

func size(t *Term) int {
	n := 1
	for _, a := range t.Args {
		n += len(a.Args) + 1
	}
	return n
}

func (p *Printer) str(t *Term, top bool) string {
	if !top {
		if n, ok := p.named[t.ID]; ok {
			return n
		}
	}
	switch {
	case t.Op == "lit":
		return t.Lit
	case t.Op == "q":
		s := "(" + t.QKind + " (" + strings.Join(t.QVars, " ") + ") "
		body := p.str(t.Args[0], false)
		if len(t.Pat) > 0 {
			var ps []string
			for _, x := range t.Pat {
				ps = append(ps, p.str(x, false))
			}
			if t.Multi {
				body = "(! " + body + " :pattern (" + strings.Join(ps, " ") + "))"
			} else {
				ann := ""
				for _, x := range ps {
					ann += " :pattern (" + x + ")"
				}
				body = "(! " + body + ann + ")"
			}
		}
		return s + body + ")"
	case len(t.Args) == 0:
		return t.Op
	}
	var sb strings.Builder
	sb.WriteByte('(')
	sb.WriteString(t.Op)
	for _, a := range t.Args {
		sb.WriteByte(' ')
		sb.WriteString(p.str(a, false))
	}
	sb.WriteByte(')')
	return sb.String()
}

// String prints a term fully inlined (debugging / samples).
func (b *Builder) String(t *Term) string {
	p := b.NewPrinter()
	return p.str(t, false)
}

// Subst replaces bound variables (by name) in t.
func (b *Builder) Subst(t *Term, m map[string]*Term) *Term {
	memo := map[int]*Term{}
	var rec func(t *Term) *Term
	rec = func(t *Term) *Term {
		if !t.Bound {
			return t
		}
		if r, ok := memo[t.ID]; ok {
			return r
		}
		var out *Term
		switch {
		case t.Lit == "bound":
			if r, ok := m[t.Op]; ok {
				out = r
			} else {
				out = t
			}
		case t.Op == "q":
			body := rec(t.Args[0])
			var vars []*Term
			for _, qv := range t.QVars {
				fs := strings.SplitN(strings.Trim(qv, "()"), " ", 2)
				vars = append(vars, b.BoundVar(fs[0], fs[1]))
			}
			var pats []*Term
			for _, p := range t.Pat {
				pats = append(pats, rec(p))
			}
			out = b.Quant(t.QKind, vars, body, pats...)
		default:
			args := make([]*Term, len(t.Args))
			changed := false
			for i, a := range t.Args {
				args[i] = rec(a)
				if args[i] != a {
					changed = true
				}
			}
			if !changed {
				out = t
			} else {
				out = b.Rebuild(t, args)
			}
		}
		memo[t.ID] = out
		return out
	}
	return rec(t)
}

// Rebuild re-applies t's operator to new arguments (with simplification).
func (b *Builder) Rebuild(t *Term, args []*Term) *Term {
	switch t.Op {
	case "and":
		return b.And(args...)
	case "or":
		return b.Or(args...)
	case "not":
		return b.Not(args[0])
	case "=>":
		return b.Implies(args[0], args[1])
	case "ite":
		return b.Ite(args[0], args[1], args[2])
	case "=":
		return b.Eq(args[0], args[1])
	case "+":
		if len(args) == 2 {
			return b.Add(args[0], args[1])
		}
	case "*":
		if len(args) == 2 {
			return b.Mul(args[0], args[1])
		}
	case "-":
		if len(args) == 2 {
			return b.Sub(args[0], args[1])
		}
		if len(args) == 1 {
			return b.Neg(args[0])
		}
	case "<", "<=", ">", ">=":
		return b.Cmp(t.Op, args[0], args[1])
	}
	return b.mk(&Term{Op: t.Op, Sort: t.Sort, Args: args, Lit: t.Lit})
}
