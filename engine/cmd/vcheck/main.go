// vcheck: contract-based deductive checker for unixpickle/model3d.
package main

import (
	"encoding/json"
	"flag"
	"fmt"
	"os"
	"path/filepath"
	"sort"
	"strconv"
	"strings"
	"sync"
	"time"

	"verifengine/solve"
	"verifengine/vc"
)

var (
	verifDir = envOr("VERIF_DIR", "/verif")
	repoDir  = envOr("VERIF_REPO", "/repo")
)

func envOr(k, d string) string {
	if v := os.Getenv(k); v != "" {
		return v
	}
	return d
}

func main() {
	if len(os.Args) < 2 {
		fmt.Fprintln(os.Stderr, "usage: vcheck check|loops|dump|list ...")
		os.Exit(2)
	}
	switch os.Args[1] {
	case "check":
		os.Exit(cmdCheck(os.Args[2:]))
	case "loops":
		os.Exit(cmdLoops(os.Args[2:]))
	case "list":
		os.Exit(cmdList(os.Args[2:]))
	case "replay":
		os.Exit(cmdReplay(os.Args[2:]))
	default:
		fmt.Fprintln(os.Stderr, "unknown command", os.Args[1])
		os.Exit(2)
	}
}

func extraContracts() []string {
	m, _ := filepath.Glob(filepath.Join(verifDir, "contracts", "*.contracts"))
	sort.Strings(m)
	return m
}

func load() *vc.Program {
	t0 := time.Now()
	p, err := vc.Load(repoDir, extraContracts())
	if err != nil {
		fmt.Fprintln(os.Stderr, "ENGINE-ERROR: load failed:", err)
		os.Exit(2)
	}
	fmt.Fprintf(os.Stderr, "loaded %d functions, %d contracts in %.1fs\n", len(p.Funcs), len(p.Contracts.Order), time.Since(t0).Seconds())
	return p
}

func cmdList(args []string) int {
	p := load()
	for _, c := range p.Contracts.Order {
		fmt.Printf("%-9s %-70s props=%v\n", c.Kind, c.Name, c.Props)
	}
	return 0
}

func cmdLoops(args []string) int {
	fs := flag.NewFlagSet("loops", flag.ExitOnError)
	fn := fs.String("func", "", "function name")
	fs.Parse(args)
	p := load()
	fmt.Print(p.DescribeLoops(*fn))
	return 0
}

// ---------------------------------------------------------------------

type oblOut struct {
	Function  string  `json:"function"`
	Name      string  `json:"name"`
	Kind      string  `json:"kind"`
	Status    string  `json:"status"`
	Backend   string  `json:"backend"`
	Seconds   float64 `json:"seconds"`
	Bytes     int     `json:"smt_bytes"`
	Text      string  `json:"text,omitempty"`
	Pos       string  `json:"pos,omitempty"`
	File      string  `json:"smt_file,omitempty"`
	Soft      bool    `json:"soft,omitempty"`
	output    string
	caseFiles []string
	res       *vc.FuncResult
	obl       *vc.Obligation
}

type knownFinding struct {
	Prop, Func, Obl, Text, Desc string
	seen                        bool
}

func loadKnown() []*knownFinding {
	var out []*knownFinding
	data, err := os.ReadFile(filepath.Join(verifDir, "known_findings.txt"))
	if err != nil {
		return nil
	}
	for _, l := range strings.Split(string(data), "\n") {
		l = strings.TrimSpace(l)
		if !strings.HasPrefix(l, "known:") {
			continue
		}
		k := &knownFinding{}
		body := strings.TrimSpace(l[len("known:"):])
		if i := strings.Index(body, "::"); i >= 0 {
			k.Desc = strings.TrimSpace(body[i+2:])
			body = body[:i]
		}
		for _, f := range splitFields(body) {
			kv := strings.SplitN(f, "=", 2)
			if len(kv) != 2 {
				continue
			}
			v := strings.Trim(kv[1], "\"")
			switch kv[0] {
			case "property":
				k.Prop = v
			case "function":
				k.Func = v
			case "obligation":
				k.Obl = v
			case "text":
				k.Text = v
			}
		}
		out = append(out, k)
	}
	return out
}

// splitFields splits on spaces, honouring double quotes.
func splitFields(s string) []string {
	var out []string
	var cur strings.Builder
	inq := false
	for _, r := range s {
		switch {
		case r == '"':
			inq = !inq
			cur.WriteRune(r)
		case r == ' ' && !inq:
			if cur.Len() > 0 {
				out = append(out, cur.String())
				cur.Reset()
			}
		default:
			cur.WriteRune(r)
		}
	}
	if cur.Len() > 0 {
		out = append(out, cur.String())
	}
	return out
}

func (k *knownFinding) matches(prop string, o *oblOut) bool {
	if k.Prop != prop || k.Func != o.Function {
		return false
	}
	name := o.Name
	if i := strings.Index(name, "~"); i >= 0 {
		name = name[:i]
	}
	if k.Obl != "" && k.Obl != name && k.Obl != o.Name {
		return false
	}
	if k.Text != "" && !strings.Contains(o.Text, k.Text) {
		return false
	}
	return true
}

func sanitizeFile(s string) string {
	var sb strings.Builder
	for _, r := range s {
		switch {
		case r >= 'a' && r <= 'z', r >= 'A' && r <= 'Z', r >= '0' && r <= '9', r == '_', r == '-', r == '.':
			sb.WriteRune(r)
		default:
			sb.WriteByte('_')
		}
	}
	out := sb.String()
	if len(out) > 150 {
		out = out[:150]
	}
	return out
}

func cmdCheck(args []string) int {
	fs := flag.NewFlagSet("check", flag.ExitOnError)
	prop := fs.String("prop", "", "property id")
	tier := fs.String("tier", envOr("VERIF_TIER", "quick"), "quick|thorough")
	only := fs.String("func", "", "only this function (debug)")
	verbose := fs.Bool("v", false, "verbose")
	noEvidence := fs.Bool("no-evidence", false, "do not write evidence")
	fs.Parse(args)
	if *prop == "" {
		fmt.Fprintln(os.Stderr, "need -prop")
		return 2
	}
	t0 := time.Now()
	// global watchdog: a check must never hang
	limit := 20 * time.Minute
	if *tier == "thorough" {
		limit = 60 * time.Minute
	}
	time.AfterFunc(limit, func() {
		fmt.Printf("ENGINE-ERROR property=%s: check exceeded its global time limit (%s)\n", *prop, limit)
		os.Exit(2)
	})
	seed, _ := strconv.Atoi(os.Getenv("VERIF_SEED"))
	timeout := 30 * time.Second
	if *tier == "thorough" {
		timeout = 90 * time.Second
	}
	p := load()
	var targets []*vc.FuncContract
	for _, c := range p.Contracts.Order {
		if !c.HasProp(*prop) || (c.Kind != "func" && c.Kind != "lemma") {
			continue
		}
		if *only != "" && c.Name != *only {
			continue
		}
		targets = append(targets, c)
	}
	workDir := filepath.Join(verifDir, "work", *prop)
	if r := os.Getenv("VERIF_REPO"); r != "" && r != "/repo" {
		// runs against a scratch copy (must-fail corpus, seeded changes) keep their
		// solver files apart from a check of /repo that may run at the same time
		workDir = filepath.Join(verifDir, "work", fmt.Sprintf("%s.scratch-%d", *prop, os.Getpid()))
		defer os.RemoveAll(workDir)
	}
	os.RemoveAll(workDir)
	os.MkdirAll(workDir, 0o755)

	results := make([]*vc.FuncResult, len(targets))
	var wg sync.WaitGroup
	gsem := make(chan struct{}, 8)
	for i, c := range targets {
		wg.Add(1)
		go func(i int, c *vc.FuncContract) {
			defer wg.Done()
			gsem <- struct{}{}
			defer func() { <-gsem }()
			if c.Trusted {
				results[i] = &vc.FuncResult{Name: c.Name, Contract: c}
				return
			}
			if c.Kind == "lemma" {
				results[i] = p.VerifyLemma(c)
			} else {
				results[i] = p.VerifyFunc(c)
			}
		}(i, c)
	}
	wg.Wait()
	genSecs := time.Since(t0).Seconds()

	// solve
	var outs []*oblOut
	var mu sync.Mutex
	var swg sync.WaitGroup
	undecided := []string{}
	retried := []string{}
	trusted := []string{}
	assumed := map[string]bool{}
	funcs := []string{}
	for _, r := range results {
		if r.Contract.Trusted {
			trusted = append(trusted, r.Name)
			continue
		}
		funcs = append(funcs, fmt.Sprintf("%s [float=%s]", r.Name, r.FloatMod))
		for _, a := range r.Assumed {
			assumed[a] = true
		}
		if r.Err != nil {
			undecided = append(undecided, fmt.Sprintf("%s: %v", r.Name, r.Err))
			fmt.Printf("UNDECIDED property=%s function=%s reason=%q\n", *prop, r.Name, firstLineOf(r.Err.Error()))
			if os.Getenv("VERIF_STACK") != "" {
				fmt.Println(r.Err.Error())
			}
			continue
		}
		all := append([]*vc.Obligation{}, r.Obls...)
		for _, o := range r.Covers {
			all = append(all, o)
		}
		for _, o := range all {
			oo := &oblOut{Function: r.Name, Name: o.Name, Kind: o.Kind, Text: o.Text, Pos: o.Pos, Soft: o.Soft, res: r, obl: o}
			outs = append(outs, oo)
			if o.Kind != "cover" && r.Trivial(o) {
				oo.Status = "unsat"
				oo.Backend = "engine-simplifier"
				continue
			}
			text := r.SMTText(o, o.Kind == "cover") + "(get-model)\n"
			oo.Bytes = len(text)
			fname := filepath.Join(workDir, sanitizeFile(r.Name+"__"+o.Name)+".smt2")
			oo.File = fname
			if len(text) > 2_000_000 {
				oo.Status = "toolarge"
				continue
			}
			if err := os.WriteFile(fname, []byte(text), 0o644); err != nil {
				oo.Status = "error"
				continue
			}
			// case-split variants are rendered here, sequentially: the term
			// builder of a function is not safe for concurrent use
			var caseFiles []string
			if o.Kind != "cover" {
				if cases := r.CaseSplits(o, 2); len(cases) > 1 {
					for ci, cs := range cases {
						ctext := r.SMTTextWith(o, cs, true) + "(get-model)\n"
						cname := strings.TrimSuffix(fname, ".smt2") + fmt.Sprintf(".case%d.smt2", ci)
						if os.WriteFile(cname, []byte(ctext), 0o644) == nil {
							caseFiles = append(caseFiles, cname)
						}
					}
				}
			}
			oo.caseFiles = caseFiles
			swg.Add(1)
			go func(oo *oblOut, fname string, cover bool, caseFiles []string) {
				defer swg.Done()
				to := timeout
				if cover {
					to = 6 * time.Second
				}
				res := solveObl(fname, caseFiles, to)
				mu.Lock()
				oo.Status = res.Status
				oo.Backend = res.Solver
				oo.Seconds = res.Seconds
				oo.output = res.Output
				mu.Unlock()
			}(oo, fname, o.Kind == "cover", caseFiles)
		}
	}
	// table obligations (finite domains decided by the solver / by enumeration)
	if *prop == "C01" && *only == "" {
		td, err := loadTables(workDir)
		if err != nil {
			undecided = append(undecided, "lookup tables: "+err.Error())
			fmt.Printf("UNDECIDED property=%s function=tables reason=%q\n", *prop, firstLineOf(err.Error()))
		} else {
			seenFn := map[string]bool{}
			for _, eo := range tableObligations(td) {
				if !seenFn[eo.Function] {
					seenFn[eo.Function] = true
					funcs = append(funcs, eo.Function+" [finite domain]")
				}
				oo := &oblOut{Function: eo.Function, Name: eo.Name, Kind: "table", Text: eo.Text}
				outs = append(outs, oo)
				if eo.Enum {
					oo.Backend = "enum"
					if eo.EnumOK {
						oo.Status = "unsat"
					} else {
						oo.Status = "sat"
						oo.output = eo.EnumInfo
					}
					continue
				}
				fname := filepath.Join(workDir, sanitizeFile(eo.Function+"__"+eo.Name)+".smt2")
				oo.File = fname
				oo.Bytes = len(eo.SMT)
				if err := os.WriteFile(fname, []byte(eo.SMT), 0o644); err != nil {
					oo.Status = "error"
					continue
				}
				swg.Add(1)
				go func(oo *oblOut, fname string) {
					defer swg.Done()
					res := solve.Run(fname, 4*timeout, "z3-new,z3,cvc5")
					mu.Lock()
					oo.Status, oo.Backend, oo.Seconds, oo.output = res.Status, res.Solver, res.Seconds, res.Output
					mu.Unlock()
				}(oo, fname)
			}
		}
	}
	swg.Wait()
	// second chance: an obligation that ran out of time (machine load, solver
	// luck) is retried alone with a long limit before it is reported
	retryTo := 100 * time.Second
	if *tier == "thorough" {
		retryTo = 300 * time.Second
	}
	rsem := make(chan struct{}, 8)
	nretry := 0
	nundef := 0
	for _, oo := range outs {
		if oo.Kind != "cover" && oo.File != "" && oo.Status != "unsat" && oo.Status != "sat" && oo.Status != "toolarge" && oo.Status != "" {
			nundef++
		}
	}
	for _, oo := range outs {
		if nundef > 8 || os.Getenv("VERIF_NORETRY") != "" {
			// a broad failure is not a load glitch: report without retrying
			// (VERIF_NORETRY: must-fail corpus runs, where failing is the expected outcome)
			break
		}
		if oo.Kind == "cover" || oo.File == "" || oo.Status == "unsat" || oo.Status == "sat" || oo.Status == "toolarge" || oo.Status == "" {
			continue
		}
		// bounded: a run in which dozens of obligations time out is not a load glitch
		nretry++
		if nretry > 8 {
			break
		}
		swg.Add(1)
		go func(oo *oblOut) {
			defer swg.Done()
			rsem <- struct{}{}
			defer func() { <-rsem }()
			first := oo.Status
			res := solveOblWith(oo.File, oo.caseFiles, retryTo, "z3-new,cvc5,z3-nlsat", "z3-new")
			mu.Lock()
			oo.Seconds += res.Seconds
			if res.Status == "unsat" || res.Status == "sat" {
				oo.Status = res.Status
				oo.Backend = res.Solver + "+retry"
				oo.output = res.Output
				retried = append(retried, fmt.Sprintf("%s :: %s (%s after %s, %.1fs)", oo.Function, oo.Name, res.Status, first, res.Seconds))
			}
			mu.Unlock()
		}(oo)
	}
	swg.Wait()

	known := loadKnown()
	violations := 0
	discharged := 0
	obligations := 0
	covers, coversOK := 0, 0
	solverSecs := 0.0
	knownSeen := []string{}
	byBackend := map[string]int{}
	var samples []interface{}
	replayDir := filepath.Join(verifDir, "replays", *prop)
	beforeCall := map[string]string{}
	for _, o := range outs {
		solverSecs += o.Seconds
		if o.Kind == "cover" && strings.HasPrefix(o.Name, "cover:before-call(") {
			// reachability of a call site: only the reference point for the
			// after-call cover that follows it
			beforeCall[o.Function+"|"+strings.TrimPrefix(o.Name, "cover:before-call")] = o.Status
			continue
		}
		if o.Kind == "cover" && strings.HasPrefix(o.Name, "cover:after-call(") {
			covers++
			b := beforeCall[o.Function+"|"+strings.TrimPrefix(o.Name, "cover:after-call")]
			if o.Status == "unsat" && b == "sat" {
				fmt.Printf("VACUOUS property=%s function=%s: %s: the assumed postconditions contradict the state at a reachable call site\n", *prop, o.Function, o.Name)
				undecided = append(undecided, o.Function+": contradictory callee postconditions ("+o.Name+")")
				violations++
				os.MkdirAll(replayDir, 0o755)
				path := filepath.Join(replayDir, sanitizeFile(o.Function+"__vacuous_call")+".json")
				writeJSON(path, map[string]interface{}{"property": *prop, "function": o.Function, "obligation": o.Name, "reason": "contradictory callee postconditions at a reachable call site"})
				fmt.Printf("VIOLATION property=%s replay=%s no-failing-input-found\n", *prop, path)
			} else {
				coversOK++
			}
			continue
		}
		if o.Kind == "cover" && strings.HasPrefix(o.Name, "cover:deadpath(") {
			if o.Status == "unsat" {
				fmt.Printf("DEADPATH property=%s function=%s %s: infeasible under the loop invariants (its obligations hold vacuously)\n", *prop, o.Function, o.Name)
			}
			continue
		}
		if o.Kind == "cover" {
			covers++
			// a cover must be satisfiable (or at least not refuted)
			if o.Status == "unsat" {
				fmt.Printf("VACUOUS property=%s function=%s: preconditions are contradictory\n", *prop, o.Function)
				undecided = append(undecided, o.Function+": contradictory preconditions (vacuous contract)")
				violations++ // engine/contract bug: do not report success
				os.MkdirAll(replayDir, 0o755)
				path := filepath.Join(replayDir, sanitizeFile(o.Function+"__vacuous")+".json")
				writeJSON(path, map[string]interface{}{"property": *prop, "function": o.Function, "obligation": o.Name, "reason": "contradictory preconditions"})
				fmt.Printf("VIOLATION property=%s replay=%s no-failing-input-found\n", *prop, path)
			} else {
				coversOK++
			}
			continue
		}
		if o.Status == "unsat" {
			obligations++
			discharged++
			byBackend[o.Backend]++
			if len(samples) < 12 {
				samples = append(samples, map[string]interface{}{"function": o.Function, "obligation": o.Name, "clause": o.Text, "backend": o.Backend, "seconds": round3(o.Seconds), "smt_bytes": o.Bytes})
			}
			continue
		}
		// failing obligation
		matched := false
		for _, k := range known {
			if k.matches(*prop, o) {
				matched = true
				k.seen = true
				msg := fmt.Sprintf("KNOWN-FINDING: property=%s function=%s obligation=%s status=%s %s", *prop, o.Function, o.Name, o.Status, k.Desc)
				fmt.Println(msg)
				knownSeen = append(knownSeen, msg)
				break
			}
		}
		if matched {
			continue
		}
		obligations++
		if o.Soft {
			undecided = append(undecided, fmt.Sprintf("%s: %s (%s) -- loop without invariant not fully unrolled", o.Function, o.Name, o.Status))
			fmt.Printf("UNDECIDED property=%s function=%s obligation=%s status=%s\n", *prop, o.Function, o.Name, o.Status)
			continue
		}
		violations++
		os.MkdirAll(replayDir, 0o755)
		path := filepath.Join(replayDir, sanitizeFile(o.Function+"__"+o.Name)+".json")
		rep := map[string]interface{}{
			"property": *prop, "function": o.Function, "obligation": o.Name, "kind": o.Kind, "clause": o.Text, "position": o.Pos,
			"solver_status": o.Status, "solver": o.Backend, "solver_output": truncate(o.output, 20000), "smt_file": o.File,
			"replayed_on_real_code": false,
		}
		if smt, err := os.ReadFile(o.File); err == nil && len(smt) < 400000 {
			rep["smt"] = string(smt)
		}
		suffix := " no-failing-input-found"
		if o.Status == "sat" {
			if ok, info := tryReplay(p, *prop, o, rep); ok {
				suffix = ""
				rep["replayed_on_real_code"] = true
				rep["replay"] = info
			} else if info != nil {
				rep["replay_attempt"] = info
			}
		}
		writeJSON(path, rep)
		fmt.Printf("FAILED property=%s function=%s obligation=%s status=%s clause=%q\n", *prop, o.Function, o.Name, o.Status, o.Text)
		fmt.Printf("VIOLATION property=%s replay=%s%s\n", *prop, path, suffix)
	}
	if *verbose {
		for _, o := range outs {
			fmt.Printf("  %-8s %-10s %6.2fs %8d  %s :: %s\n", o.Status, o.Backend, o.Seconds, o.Bytes, o.Function, o.Name)
		}
	}
	if obligations == 0 {
		fmt.Printf("ENGINE-ERROR property=%s: no obligations were generated (vacuous run)\n", *prop)
		if violations == 0 {
			return 2
		}
	}
	wall := time.Since(t0).Seconds()
	fmt.Printf("SUMMARY property=%s tier=%s functions=%d obligations=%d discharged=%d violations=%d undecided=%d known=%d covers=%d/%d gen=%.1fs solver=%.1fs wall=%.1fs\n",
		*prop, *tier, len(funcs), obligations, discharged, violations, len(undecided), len(knownSeen), coversOK, covers, genSecs, solverSecs, wall)

	if !*noEvidence && *only == "" {
		var asm []string
		for a := range assumed {
			asm = append(asm, a)
		}
		sort.Strings(asm)
		asm = append(asm, "go/types + go/ssa (x/tools v0.29.0) build the SSA the Go compiler would compile; the engine's SMT encoding of SSA instructions is trusted")
		asm = append(asm, "int/int64/uint64 arithmetic treated as mathematical (no overflow); narrower integer types wrap exactly")
		level := "proof"
		if mlevel := manifestLevel(*prop); mlevel != "" {
			level = mlevel
		}
		tb := []string{"z3 4.8.12 / z3 5.1.0 / cvc5 1.0.3 unsat answers", "verifengine VC generator (go/ssa -> SMT-LIB2)", "trusted contracts: " + strings.Join(trusted, ", ")}
		ev := map[string]interface{}{
			"property_id": *prop,
			"tier":        *tier,
			"seed":        seed,
			"level":       level,
			"wall_s":      round3(wall),
			"violations":  violations,
			"assumptions": asm,
			"coverage": map[string]interface{}{
				"obligations":              obligations,
				"discharged":               discharged,
				"checker_cmd":              fmt.Sprintf("/verif/check %s --tier %s", *prop, *tier),
				"trusted_base":             tb,
				"functions_under_contract": funcs,
				"trusted_contracts":        trusted,
				"discharged_by_backend":    byBackend,
				"solver_seconds_total":     round3(solverSecs),
				"vcgen_seconds":            round3(genSecs),
				"covers_checked":           covers,
				"covers_satisfiable":       coversOK,
				"undecided":                undecided,
				"known_findings_seen":      knownSeen,
				"samples":                  samples,
				"contract_files":           p.ContractFiles,
				"explanation":              "obligations are weakest-precondition style VCs generated from go/ssa of /repo's working tree for every function under contract; each is an SMT query whose unsat answer discharges it",
			},
		}
		os.MkdirAll(filepath.Join(verifDir, "evidence"), 0o755)
		writeJSON(filepath.Join(verifDir, "evidence", *prop+".json"), ev)
	}
	if violations > 0 {
		return 1
	}
	return 0
}

// solveObl races the plain query against a case analysis on its ite conditions.
func solveObl(fname string, caseFiles []string, to time.Duration) solve.Result {
	return solveOblWith(fname, caseFiles, to, "", "z3-new,z3")
}

// solveOblWith: `which` restricts the portfolio for the plain query, `whichCases` for the case files.
func solveOblWith(fname string, caseFiles []string, to time.Duration, which, whichCases string) solve.Result {
	if len(caseFiles) <= 1 {
		return solve.Run(fname, to, which)
	}
	type cr struct {
		idx int
		r   solve.Result
	}
	var res solve.Result
	ch := make(chan cr, len(caseFiles)+1)
	go func() { ch <- cr{-1, solve.Run(fname, to, which)} }()
	for ci, cname := range caseFiles {
		go func(ci int, cname string) { ch <- cr{ci, solve.Run(cname, to, whichCases)} }(ci, cname)
	}
	okCases := 0
	var base *solve.Result
	total := 0.0
	done := false
	for k := 0; k < len(caseFiles)+1 && !done; k++ {
		c := <-ch
		total += c.r.Seconds
		if c.idx < 0 {
			b := c.r
			base = &b
			if b.Status == "unsat" || b.Status == "sat" {
				res = b
				done = true
			}
			continue
		}
		if c.r.Status == "unsat" {
			okCases++
			if okCases == len(caseFiles) {
				res = c.r
				res.Solver = c.r.Solver + "+cases"
				res.Seconds = total
				done = true
			}
		}
	}
	if !done {
		if base != nil {
			res = *base
		} else {
			res = solve.Result{Status: "timeout"}
		}
	}
	return res
}

func manifestLevel(prop string) string {
	data, err := os.ReadFile(filepath.Join(verifDir, "MANIFEST.json"))
	if err != nil {
		return ""
	}
	var m struct {
		Checks []struct {
			PropertyID string `json:"property_id"`
			Level      struct {
				Category string `json:"category"`
			} `json:"level_claimed"`
		} `json:"checks"`
	}
	if json.Unmarshal(data, &m) != nil {
		return ""
	}
	for _, c := range m.Checks {
		if c.PropertyID == prop {
			return c.Level.Category
		}
	}
	return ""
}

func firstLineOf(s string) string {
	if i := strings.Index(s, "\n"); i >= 0 {
		return s[:i]
	}
	return s
}

func truncate(s string, n int) string {
	if len(s) > n {
		return s[:n] + "...[truncated]"
	}
	return s
}

func round3(f float64) float64 { return float64(int(f*1000+0.5)) / 1000 }

func writeJSON(path string, v interface{}) {
	data, _ := json.MarshalIndent(v, "", " ")
	os.WriteFile(path, append(data, '\n'), 0o644)
}

func cmdReplay(args []string) int {
	fs := flag.NewFlagSet("replay", flag.ExitOnError)
	path := fs.String("path", "", "replay file")
	fs.Parse(args)
	data, err := os.ReadFile(*path)
	if err != nil {
		fmt.Fprintln(os.Stderr, err)
		return 2
	}
	var rep map[string]interface{}
	if err := json.Unmarshal(data, &rep); err != nil {
		fmt.Fprintln(os.Stderr, err)
		return 2
	}
	fmt.Printf("property=%v function=%v obligation=%v\nclause: %v\n", rep["property"], rep["function"], rep["obligation"], rep["clause"])
	smt, _ := rep["smt"].(string)
	if smt == "" {
		fmt.Println("no SMT text recorded")
		return 2
	}
	tmp := filepath.Join(verifDir, "work", "replay.smt2")
	os.MkdirAll(filepath.Dir(tmp), 0o755)
	os.WriteFile(tmp, []byte(smt), 0o644)
	res := solve.Run(tmp, 60*time.Second, "")
	fmt.Printf("solver=%s status=%s\n%s\n", res.Solver, res.Status, truncate(res.Output, 4000))
	if res.Status == "unsat" {
		fmt.Println("obligation discharges (recorded SMT is from the failing tree; re-run the check for the current tree)")
		return 0
	}
	return 1
}

// tryReplay is the hook for replaying a model on the real code.
func tryReplay(p *vc.Program, prop string, o *oblOut, rep map[string]interface{}) (bool, interface{}) {
	return replayModel(p, prop, o, rep)
}
