package main

// Table obligations for C01 (and the per-cell part of C02): the marching-cubes
// and marching-squares lookup tables, exactly as the library computes them
// (exported through the build-tag-guarded hooks Verif*), must satisfy the
// per-cell and neighbouring-cell conditions that make every generated surface
// closed, consistently oriented and free of pinched vertices, for EVERY
// assignment of inside/outside to lattice points.
//
// Each condition is rendered as an SMT query over symbolic corner bits (the
// table rows enter as constants selected by the bits); the solver decides it
// for all assignments. The pinch condition over the 2^18 assignments round a
// lattice edge is decided by exhaustive evaluation ("enum" back end).

import (
	"encoding/json"
	"fmt"
	"os"
	"os/exec"
	"path/filepath"
	"sort"
	"strings"
)

type tableData struct {
	Mc        [256][][6]int `json:"mc"`
	Rotations [][8]int      `json:"rotations"`
	Base      []int         `json:"base"`
	McCorners [8][3]float64 `json:"mc_corners"`
	Ms        [16][][4]int  `json:"ms"`
	MsCorners [4][2]float64 `json:"ms_corners"`
}

type extraObl struct {
	Function string
	Name     string
	Text     string
	SMT      string // complete script (check-sat included); unsat = holds
	Enum     bool   // decided by enumeration already
	EnumOK   bool
	EnumInfo string
}

const harnessMain = `package main

import (
	"encoding/json"
	"os"

	"github.com/unixpickle/model3d/model2d"
	"github.com/unixpickle/model3d/model3d"
)

func main() {
	out := map[string]interface{}{
		"mc":         model3d.VerifMcLookupTable(),
		"rotations":  model3d.VerifMcRotations(),
		"base":       model3d.VerifMcBaseConfigs(),
		"mc_corners": model3d.VerifMcCornerCoordinates(),
		"ms":         model2d.VerifMsLookupTable(),
		"ms_corners": model2d.VerifMsCornerCoordinates(),
	}
	json.NewEncoder(os.Stdout).Encode(out)
}
`

// loadTables builds and runs the harness against the repository working tree.
func loadTables(workDir string) (*tableData, error) {
	dir := filepath.Join(workDir, "harness")
	os.RemoveAll(dir)
	if err := os.MkdirAll(dir, 0o755); err != nil {
		return nil, err
	}
	gomod := fmt.Sprintf("module verifharness\n\ngo 1.21\n\nrequire github.com/unixpickle/model3d v0.0.0\n\nreplace github.com/unixpickle/model3d => %s\n", repoDir)
	os.WriteFile(filepath.Join(dir, "go.mod"), []byte(gomod), 0o644)
	if sum, err := os.ReadFile(filepath.Join(repoDir, "go.sum")); err == nil {
		os.WriteFile(filepath.Join(dir, "go.sum"), sum, 0o644)
	}
	os.WriteFile(filepath.Join(dir, "main.go"), []byte(harnessMain), 0o644)
	cmd := exec.Command("go", "run", "-tags", "verif", ".")
	cmd.Dir = dir
	cmd.Env = append(os.Environ(), "GOFLAGS=-mod=mod", "GOPROXY=off", "GOSUMDB=off", "GOTOOLCHAIN=local")
	var stderr strings.Builder
	cmd.Stderr = &stderr
	out, err := cmd.Output()
	if err != nil {
		return nil, fmt.Errorf("table harness failed: %v\n%s", err, stderr.String())
	}
	var td tableData
	if err := json.Unmarshal(out, &td); err != nil {
		return nil, err
	}
	return &td, nil
}

// ---------------------------------------------------------------------
// cube geometry (from the exported corner coordinates)

type cubeGeom struct {
	coord [8][3]int
	edges [][2]int       // the 12 lattice edges (a<b)
	eid   map[[2]int]int // unordered pair -> edge id
}

func newCubeGeom(c [8][3]float64) *cubeGeom {
	g := &cubeGeom{eid: map[[2]int]int{}}
	for i := range c {
		for k := 0; k < 3; k++ {
			g.coord[i][k] = int(c[i][k] + 0.5)
		}
	}
	for a := 0; a < 8; a++ {
		for b := a + 1; b < 8; b++ {
			d := 0
			for k := 0; k < 3; k++ {
				if g.coord[a][k] != g.coord[b][k] {
					d++
				}
			}
			if d == 1 {
				g.eid[[2]int{a, b}] = len(g.edges)
				g.edges = append(g.edges, [2]int{a, b})
			}
		}
	}
	return g
}

func (g *cubeGeom) edgeID(a, b int) int {
	if a > b {
		a, b = b, a
	}
	if id, ok := g.eid[[2]int{a, b}]; ok {
		return id
	}
	return -1
}

// onFace: lattice edge e lies in the cube face {coord[axis] == val}.
func (g *cubeGeom) onFace(e, axis, val int) bool {
	a, b := g.edges[e][0], g.edges[e][1]
	return g.coord[a][axis] == val && g.coord[b][axis] == val
}

// commonFace: the two lattice edges lie in one common cube face.
func (g *cubeGeom) commonFace(e1, e2 int) bool {
	for axis := 0; axis < 3; axis++ {
		for val := 0; val < 2; val++ {
			if g.onFace(e1, axis, val) && g.onFace(e2, axis, val) {
				return true
			}
		}
	}
	return false
}

func bitsMatch(prefix string, cfg, n int) string {
	var parts []string
	for c := 0; c < n; c++ {
		if cfg&(1<<uint(c)) != 0 {
			parts = append(parts, fmt.Sprintf("%s%d", prefix, c))
		} else {
			parts = append(parts, fmt.Sprintf("(not %s%d)", prefix, c))
		}
	}
	return "(and " + strings.Join(parts, " ") + ")"
}

func boolLit(b bool) string {
	if b {
		return "true"
	}
	return "false"
}

func declBits(prefix string, n int) string {
	var sb strings.Builder
	for c := 0; c < n; c++ {
		fmt.Fprintf(&sb, "(declare-const %s%d Bool)\n", prefix, c)
	}
	return sb.String()
}

// tableObligations renders all table conditions.
func tableObligations(td *tableData) []*extraObl {
	var out []*extraObl
	g := newCubeGeom(td.McCorners)
	fn := "model3d.mcLookupTable (table)"
	if len(g.edges) != 12 {
		out = append(out, &extraObl{Function: fn, Name: "table:geometry", Text: "mcCornerCoordinates describes a cube with 12 edges", Enum: true, EnumOK: false, EnumInfo: "corner coordinates are not the 8 corners of the unit cube"})
		return out
	}
	// per row: list of triangles as edge-id triples; -1 for a non-edge
	type tri [3]int
	rows := make([][]tri, 256)
	for cfg := 0; cfg < 256; cfg++ {
		for _, t := range td.Mc[cfg] {
			rows[cfg] = append(rows[cfg], tri{g.edgeID(t[0], t[1]), g.edgeID(t[2], t[3]), g.edgeID(t[4], t[5])})
		}
	}
	head := "(set-option :produce-models true)\n(set-logic ALL)\n"

	// T1: every triangle vertex is the midpoint of a cube edge whose ends are classified differently.
	// T2: every cube edge whose ends are classified differently carries a vertex (so: exactly the crossing edges carry vertices).
	{
		var sb strings.Builder
		sb.WriteString(head + declBits("b", 8))
		var conj []string
		for cfg := 0; cfg < 256; cfg++ {
			var ok []string
			used := map[int]bool{}
			for ti, t := range rows[cfg] {
				for k := 0; k < 3; k++ {
					if t[k] < 0 {
						ok = append(ok, "false")
						continue
					}
					used[t[k]] = true
					a, b := g.edges[t[k]][0], g.edges[t[k]][1]
					ok = append(ok, fmt.Sprintf("(xor b%d b%d)", a, b))
					// the raw pair must name inside/outside ends consistently: no requirement here
					_ = ti
				}
			}
			for e, ab := range g.edges {
				ok = append(ok, fmt.Sprintf("(=> (xor b%d b%d) %s)", ab[0], ab[1], boolLit(used[e])))
			}
			conj = append(conj, fmt.Sprintf("(=> %s (and true %s))", bitsMatch("b", cfg, 8), strings.Join(ok, " ")))
		}
		sb.WriteString("(assert (not (and " + strings.Join(conj, "\n ") + ")))\n(check-sat)\n(get-model)\n")
		out = append(out, &extraObl{Function: fn, Name: "table:T1T2-vertices-on-crossing-edges", SMT: sb.String(),
			Text: "for every corner assignment: triangle vertices are midpoints of exactly the cube edges whose two ends are classified differently"})
	}
	// T3: inside one cell, a directed triangle edge that does not lie in a cube face has exactly one
	// reverse partner in the same row and occurs once; an edge lying in a cube face occurs once and
	// has no reverse partner in the same row (its partner belongs to the neighbouring cell).
	{
		var sb strings.Builder
		sb.WriteString(head + declBits("b", 8))
		var conj []string
		for cfg := 0; cfg < 256; cfg++ {
			cnt := map[[2]int]int{}
			bad := false
			for _, t := range rows[cfg] {
				for k := 0; k < 3; k++ {
					u, v := t[k], t[(k+1)%3]
					if u < 0 || v < 0 || u == v {
						bad = true
						continue
					}
					cnt[[2]int{u, v}]++
				}
			}
			ok := !bad
			for uv, n := range cnt {
				rev := cnt[[2]int{uv[1], uv[0]}]
				if g.commonFace(uv[0], uv[1]) {
					if n != 1 || rev != 0 {
						ok = false
					}
				} else if n != 1 || rev != 1 {
					ok = false
				}
			}
			conj = append(conj, fmt.Sprintf("(=> %s %s)", bitsMatch("b", cfg, 8), boolLit(ok)))
		}
		sb.WriteString("(assert (not (and " + strings.Join(conj, "\n ") + ")))\n(check-sat)\n(get-model)\n")
		out = append(out, &extraObl{Function: fn, Name: "table:T3-interior-edges-paired", SMT: sb.String(),
			Text: "inside a cell every directed triangle edge not lying in a cube face has exactly one reverse partner; face edges occur once and are not closed inside the cell"})
	}
	// T4: two cells sharing a face emit exactly reversed directed edges in that face.
	axisName := []string{"x", "y", "z"}
	for axis := 0; axis < 3; axis++ {
		// shared lattice edges: in cell A they lie in face axis=1, in B in face axis=0
		var faceA, faceB []int
		for e := range g.edges {
			if g.onFace(e, axis, 1) {
				faceA = append(faceA, e)
			}
			if g.onFace(e, axis, 0) {
				faceB = append(faceB, e)
			}
		}
		// correspondence A-edge -> B-edge: same coordinates after shifting by one cell
		corr := map[int]int{}
		for _, ea := range faceA {
			for _, eb := range faceB {
				match := true
				for k := 0; k < 2; k++ {
					ca, cb := g.coord[g.edges[ea][k]], g.coord[g.edges[eb][k]]
					for d := 0; d < 3; d++ {
						if d != axis && ca[d] != cb[d] {
							match = false
						}
					}
				}
				if match {
					corr[ea] = eb
				}
			}
		}
		count := func(cfg int, u, v int) int {
			n := 0
			for _, t := range rows[cfg] {
				for k := 0; k < 3; k++ {
					if t[k] == u && t[(k+1)%3] == v {
						n++
					}
				}
			}
			return n
		}
		var sb strings.Builder
		sb.WriteString(head + declBits("a", 8) + declBits("b", 8))
		// shared corners: A corner with coord[axis]==1 equals B corner with coord[axis]==0 and same other coords
		for ca := 0; ca < 8; ca++ {
			if g.coord[ca][axis] != 1 {
				continue
			}
			for cb := 0; cb < 8; cb++ {
				if g.coord[cb][axis] != 0 {
					continue
				}
				same := true
				for d := 0; d < 3; d++ {
					if d != axis && g.coord[ca][d] != g.coord[cb][d] {
						same = false
					}
				}
				if same {
					fmt.Fprintf(&sb, "(assert (= a%d b%d))\n", ca, cb)
				}
			}
		}
		var goals []string
		for _, u := range faceA {
			for _, v := range faceA {
				if u == v {
					continue
				}
				var ta, tb []string
				for cfg := 0; cfg < 256; cfg++ {
					if n := count(cfg, u, v); n != 0 {
						ta = append(ta, fmt.Sprintf("(ite %s %d 0)", bitsMatch("a", cfg, 8), n))
					}
					if n := count(cfg, corr[v], corr[u]); n != 0 {
						tb = append(tb, fmt.Sprintf("(ite %s %d 0)", bitsMatch("b", cfg, 8), n))
					}
				}
				goals = append(goals, fmt.Sprintf("(= (+ 0 0 %s) (+ 0 0 %s))", strings.Join(ta, " "), strings.Join(tb, " ")))
			}
		}
		sb.WriteString("(assert (not (and " + strings.Join(goals, "\n ") + ")))\n(check-sat)\n(get-model)\n")
		out = append(out, &extraObl{Function: fn, Name: "table:T4-face-compatible-" + axisName[axis], SMT: sb.String(),
			Text: "for every pair of cells sharing a face (12 corner values): the directed triangle edges cell A emits in the shared face are exactly the reverses of those cell B emits there (axis " + axisName[axis] + ")"})
	}
	// T5: orientation: the triangle normal (right-hand rule, as Triangle.Normal computes it) does not
	// point from an outside corner towards an inside corner along any of its three vertex edges, and
	// points strictly outward along at least one.
	{
		var sb strings.Builder
		sb.WriteString(head + declBits("b", 8))
		var conj []string
		for cfg := 0; cfg < 256; cfg++ {
			ok := true
			for ti, t := range td.Mc[cfg] {
				// doubled midpoints (integers)
				var p [3][3]int
				for k := 0; k < 3; k++ {
					for d := 0; d < 3; d++ {
						p[k][d] = g.coord[t[2*k]][d] + g.coord[t[2*k+1]][d]
					}
				}
				u := [3]int{p[1][0] - p[0][0], p[1][1] - p[0][1], p[1][2] - p[0][2]}
				v := [3]int{p[2][0] - p[0][0], p[2][1] - p[0][1], p[2][2] - p[0][2]}
				n := [3]int{u[1]*v[2] - u[2]*v[1], u[2]*v[0] - u[0]*v[2], u[0]*v[1] - u[1]*v[0]}
				total := 0
				for k := 0; k < 3; k++ {
					a, b := t[2*k], t[2*k+1]
					in, outc := a, b
					if cfg&(1<<uint(a)) == 0 {
						in, outc = b, a
					}
					for d := 0; d < 3; d++ {
						total += n[d] * (g.coord[outc][d] - g.coord[in][d])
					}
				}
				if total <= 0 {
					ok = false
				}
				_ = ti
			}
			conj = append(conj, fmt.Sprintf("(=> %s %s)", bitsMatch("b", cfg, 8), boolLit(ok)))
		}
		sb.WriteString("(assert (not (and " + strings.Join(conj, "\n ") + ")))\n(check-sat)\n(get-model)\n")
		out = append(out, &extraObl{Function: fn, Name: "table:T5-normals-point-outward", SMT: sb.String(),
			Text: "for every corner assignment and every triangle: summed over its three vertex edges, the normal (right-hand rule, as Triangle.Normal computes it) points from the contained corner to the excluded corner; with the edge pairing T3/T4 (neighbouring triangles consistently oriented) this fixes the orientation of every component"})
	}
	// independence of Go's map iteration order: the rotation orbits of the base configurations are
	// disjoint and cover all 256 configurations (so "first one wins" never chooses between two rows).
	{
		apply := func(r [8]int, cfg int) int {
			res := 0
			for c := 0; c < 8; c++ {
				if cfg&(1<<uint(c)) != 0 {
					res |= 1 << uint(r[c])
				}
			}
			return res
		}
		owner := map[int]int{}
		okDisjoint, okCover := true, true
		info := ""
		for _, base := range td.Base {
			for _, r := range td.Rotations {
				c := apply(r, base)
				if o, seen := owner[c]; seen && o != base {
					okDisjoint = false
					info = fmt.Sprintf("configuration %d is reached from base rows %d and %d", c, o, base)
				}
				owner[c] = base
			}
		}
		for c := 0; c < 256; c++ {
			if _, ok := owner[c]; !ok {
				okCover = false
				info = fmt.Sprintf("configuration %d is not reached from any base row", c)
			}
		}
		if len(td.Rotations) != 24 {
			okCover = false
			info = fmt.Sprintf("allMcRotations returned %d rotations", len(td.Rotations))
		}
		out = append(out, &extraObl{Function: fn, Name: "table:orbits-disjoint-and-covering", Enum: true, EnumOK: okDisjoint && okCover, EnumInfo: info,
			Text: "the 24 rotations map the base rows onto disjoint orbits that cover all 256 configurations (the table does not depend on map iteration order)"})
	}
	// pinch-free vertices: round a lattice edge (4 cells, 18 lattice points) the triangles incident to the
	// edge's midpoint form one closed fan, for all 2^18 assignments.
	out = append(out, pinchObligation(td, g, fn))

	// ---------------------------------------------------------------- marching squares
	out = append(out, msObligations(td)...)
	return out
}

// pinchObligation: exhaustive check over the 2^18 corner assignments of the four cells round a z-directed
// lattice edge (by the rotation symmetry of the table this covers the three directions; the symmetry itself
// is the orbit obligation above).
func pinchObligation(td *tableData, g *cubeGeom, fn string) *extraObl {
	// lattice points (x,y,z) with x,y in 0..2, z in 0..1 ; the edge joins (1,1,0)-(1,1,1)
	idx := func(x, y, z int) int { return x + 3*y + 9*z }
	type cell struct{ ox, oy int }
	cells := []cell{{0, 0}, {1, 0}, {0, 1}, {1, 1}}
	// in each cell the centre edge is between local corners
	bad := -1
	badInfo := ""
	for assign := 0; assign < 1<<18 && bad < 0; assign++ {
		in0 := assign&(1<<uint(idx(1, 1, 0))) != 0
		in1 := assign&(1<<uint(idx(1, 1, 1))) != 0
		if in0 == in1 {
			continue
		}
		// collect, for every triangle touching the centre vertex, its two other vertices as global
		// lattice-edge keys (pairs of global lattice point indices)
		type gkey [2]int
		next := map[gkey]gkey{}
		nTri := 0
		dup := false
		for _, c := range cells {
			cfg := 0
			var glob [8]int
			for lc := 0; lc < 8; lc++ {
				gx, gy, gz := c.ox+g.coord[lc][0], c.oy+g.coord[lc][1], g.coord[lc][2]
				glob[lc] = idx(gx, gy, gz)
				if assign&(1<<uint(glob[lc])) != 0 {
					cfg |= 1 << uint(lc)
				}
			}
			key := func(a, b int) gkey {
				x, y := glob[a], glob[b]
				if x > y {
					x, y = y, x
				}
				return gkey{x, y}
			}
			centre := gkey{idx(1, 1, 0), idx(1, 1, 1)}
			for _, t := range td.Mc[cfg] {
				vs := [3]gkey{key(t[0], t[1]), key(t[2], t[3]), key(t[4], t[5])}
				for k := 0; k < 3; k++ {
					if vs[k] == centre {
						a, b := vs[(k+1)%3], vs[(k+2)%3]
						if _, ok := next[a]; ok {
							dup = true
						}
						next[a] = b
						nTri++
					}
				}
			}
		}
		if nTri == 0 || dup {
			bad, badInfo = assign, fmt.Sprintf("assignment %#x: %d triangles at the midpoint, duplicate outgoing link=%v", assign, nTri, dup)
			break
		}
		// the links a->b must form exactly one cycle through all of them
		var start gkey
		for k := range next {
			start = k
			break
		}
		seen := 0
		cur := start
		for {
			nx, ok := next[cur]
			if !ok {
				seen = -1
				break
			}
			seen++
			cur = nx
			if cur == start || seen > nTri {
				break
			}
		}
		if seen != nTri {
			bad, badInfo = assign, fmt.Sprintf("assignment %#x: the %d triangles round the midpoint do not form one closed fan", assign, nTri)
		}
	}
	return &extraObl{Function: fn, Name: "table:pinch-free-fan-round-lattice-edge", Enum: true, EnumOK: bad < 0, EnumInfo: badInfo,
		Text: "for all 2^18 assignments of the 18 lattice points round a lattice edge: the triangles of the four surrounding cells that touch the edge's midpoint form exactly one closed fan (no pinched vertex)"}
}

// msObligations: marching squares table.
func msObligations(td *tableData) []*extraObl {
	var out []*extraObl
	fn := "model2d.msLookupTable (table)"
	var coord [4][2]int
	for i, c := range td.MsCorners {
		coord[i] = [2]int{int(c[0] + 0.5), int(c[1] + 0.5)}
	}
	isEdge := func(a, b int) bool {
		d := 0
		for k := 0; k < 2; k++ {
			if coord[a][k] != coord[b][k] {
				d++
			}
		}
		return d == 1
	}
	head := "(set-option :produce-models true)\n(set-logic ALL)\n"
	// M1: in every row each crossing square edge is an endpoint of exactly one segment (start or end), no other edge is used
	// M3: normals (-dy, dx) point from inside to outside
	{
		var sb strings.Builder
		sb.WriteString(head + declBits("b", 4))
		var conj []string
		for cfg := 0; cfg < 16; cfg++ {
			ok := true
			use := map[[2]int]int{}
			for _, s := range td.Ms[cfg] {
				for k := 0; k < 2; k++ {
					a, b := s[2*k], s[2*k+1]
					if !isEdge(a, b) {
						ok = false
					}
					if a > b {
						a, b = b, a
					}
					use[[2]int{a, b}]++
				}
				// orientation
				p0 := [2]int{coord[s[0]][0] + coord[s[1]][0], coord[s[0]][1] + coord[s[1]][1]}
				p1 := [2]int{coord[s[2]][0] + coord[s[3]][0], coord[s[2]][1] + coord[s[3]][1]}
				n := [2]int{-(p1[1] - p0[1]), p1[0] - p0[0]}
				strict := false
				for k := 0; k < 2; k++ {
					a, b := s[2*k], s[2*k+1]
					in, outc := a, b
					if cfg&(1<<uint(a)) == 0 {
						in, outc = b, a
					}
					dot := n[0]*(coord[outc][0]-coord[in][0]) + n[1]*(coord[outc][1]-coord[in][1])
					if dot < 0 {
						ok = false
					}
					if dot > 0 {
						strict = true
					}
				}
				if !strict {
					ok = false
				}
			}
			var parts []string
			for a := 0; a < 4; a++ {
				for b := a + 1; b < 4; b++ {
					if !isEdge(a, b) {
						continue
					}
					n := use[[2]int{a, b}]
					parts = append(parts, fmt.Sprintf("(= (xor b%d b%d) %s)", a, b, boolLit(n == 1)))
					if n > 1 {
						ok = false
					}
				}
			}
			conj = append(conj, fmt.Sprintf("(=> %s (and %s %s))", bitsMatch("b", cfg, 4), boolLit(ok), strings.Join(parts, " ")))
		}
		sb.WriteString("(assert (not (and " + strings.Join(conj, "\n ") + ")))\n(check-sat)\n(get-model)\n")
		out = append(out, &extraObl{Function: fn, Name: "table:M1-endpoints-on-crossing-edges-normals-outward", SMT: sb.String(),
			Text: "for every corner assignment: segment endpoints are midpoints of exactly the crossing square edges, each used once, and Segment.Normal points from the contained side to the excluded side"})
	}
	// M2: across a shared square edge one cell's segment ends where the other's starts (one in, one out)
	for axis := 0; axis < 2; axis++ {
		var sb strings.Builder
		sb.WriteString(head + declBits("a", 4) + declBits("b", 4))
		var ea, eb [2]int // the shared edge as corner pairs in A and B
		na, nb := 0, 0
		for c := 0; c < 4; c++ {
			if coord[c][axis] == 1 {
				ea[na] = c
				na++
			}
			if coord[c][axis] == 0 {
				eb[nb] = c
				nb++
			}
		}
		for i := 0; i < 2; i++ {
			for j := 0; j < 2; j++ {
				if coord[ea[i]][1-axis] == coord[eb[j]][1-axis] {
					fmt.Fprintf(&sb, "(assert (= a%d b%d))\n", ea[i], eb[j])
				}
			}
		}
		starts := func(cfg int, e [2]int) int {
			n := 0
			for _, s := range td.Ms[cfg] {
				if (s[0] == e[0] && s[1] == e[1]) || (s[0] == e[1] && s[1] == e[0]) {
					n++
				}
			}
			return n
		}
		ends := func(cfg int, e [2]int) int {
			n := 0
			for _, s := range td.Ms[cfg] {
				if (s[2] == e[0] && s[3] == e[1]) || (s[2] == e[1] && s[3] == e[0]) {
					n++
				}
			}
			return n
		}
		sum := func(prefix string, f func(int, [2]int) int, e [2]int) string {
			var ts []string
			for cfg := 0; cfg < 16; cfg++ {
				if n := f(cfg, e); n != 0 {
					ts = append(ts, fmt.Sprintf("(ite %s %d 0)", bitsMatch(prefix, cfg, 4), n))
				}
			}
			return "(+ 0 0 " + strings.Join(ts, " ") + ")"
		}
		cross := fmt.Sprintf("(xor a%d a%d)", ea[0], ea[1])
		goal := fmt.Sprintf("(and (= (+ %s %s) (ite %s 1 0)) (= (+ %s %s) (ite %s 1 0)))",
			sum("a", starts, ea), sum("b", starts, eb), cross, sum("a", ends, ea), sum("b", ends, eb), cross)
		sb.WriteString("(assert (not " + goal + "))\n(check-sat)\n(get-model)\n")
		out = append(out, &extraObl{Function: fn, Name: "table:M2-one-in-one-out-" + []string{"x", "y"}[axis], SMT: sb.String(),
			Text: "for every pair of squares sharing an edge (6 corner values): the midpoint of a crossing shared edge has exactly one outgoing and one incoming segment over the two squares, and none if the edge is not crossing"})
	}
	return out
}

func sortedKeys(m map[string]bool) []string {
	var ks []string
	for k := range m {
		ks = append(ks, k)
	}
	sort.Strings(ks)
	return ks
}
