package main

import (
	"bytes"
	"context"
	"encoding/json"
	"fmt"
	"os"
	"os/exec"
	"path/filepath"
	"strings"
	"time"

	"verifengine/vc"
)

// replayModel re-runs the refuting solver for the leaf values of the inputs,
// renders an in-package Go test that calls the REAL code on those inputs and
// evaluates the refuted clause concretely, and runs it with `go test -overlay`.
func replayModel(p *vc.Program, prop string, o *oblOut, rep map[string]interface{}) (bool, interface{}) {
	info := map[string]interface{}{}
	if o.res == nil || o.obl == nil {
		return false, nil
	}
	plan := o.res.BuildReplay(o.obl)
	if plan.Unsup != "" {
		info["unsupported"] = plan.Unsup
		return false, info
	}
	text := o.res.SMTText(o.obl, false) + plan.LeafQuery(o.res.X.Builder())
	if o.Backend != "cvc5" {
		text = "(set-option :pp.decimal true)\n(set-option :pp.decimal_precision 24)\n" + text
	}
	dir := filepath.Join(verifDir, "replays", prop)
	os.MkdirAll(dir, 0o755)
	base := sanitizeFile(o.Function + "__" + o.Name)
	smtPath := filepath.Join(dir, base+".values.smt2")
	os.WriteFile(smtPath, []byte(text), 0o644)
	out, err := runSolverRaw(o.Backend, smtPath, 60*time.Second)
	if err != nil {
		info["error"] = "solver rerun: " + err.Error()
		return false, info
	}
	vals, perr := parseGetValue(out)
	if perr != nil {
		info["error"] = "model parse: " + perr.Error()
		info["solver_output"] = truncate(out, 4000)
		return false, info
	}
	if err := plan.SetValues(vals); err != nil {
		info["error"] = err.Error()
		return false, info
	}
	src, rerr := plan.Render()
	if rerr != nil {
		info["error"] = "render: " + rerr.Error()
		return false, info
	}
	testPath := filepath.Join(dir, base+"_replay_test.go")
	os.WriteFile(testPath, []byte(src), 0o644)
	info["test_file"] = testPath
	outText, confirmed := runReplayTest(plan.PkgDir, testPath)
	info["go_test_output"] = truncate(outText, 6000)
	info["confirmed"] = confirmed
	var inputs []string
	for _, l := range plan.Flat {
		inputs = append(inputs, fmt.Sprintf("%s = %s", l.GoPath, l.Val))
	}
	info["model_inputs"] = inputs
	return confirmed, info
}

func runReplayTest(pkgDir, testPath string) (string, bool) {
	ov := map[string]map[string]string{"Replace": {filepath.Join(pkgDir, "zz_verif_replay_test.go"): testPath}}
	ovData, _ := json.Marshal(ov)
	ovPath := testPath + ".overlay.json"
	os.WriteFile(ovPath, ovData, 0o644)
	ctx, cancel := context.WithTimeout(context.Background(), 180*time.Second)
	defer cancel()
	cmd := exec.CommandContext(ctx, "go", "test", "-overlay", ovPath, "-vet=off", "-timeout", "60s", "-count=1", "-run", "TestZZVerifReplay", "-v", ".")
	cmd.Dir = pkgDir
	cmd.Env = append(os.Environ(), "GOFLAGS=-mod=mod", "GOPROXY=off", "GOSUMDB=off", "GOTOOLCHAIN=local")
	var buf bytes.Buffer
	cmd.Stdout = &buf
	cmd.Stderr = &buf
	cmd.Run()
	out := buf.String()
	return out, strings.Contains(out, "REPLAY-CONFIRMED")
}

func runSolverRaw(solver, file string, timeout time.Duration) (string, error) {
	var argv []string
	secs := int(timeout.Seconds())
	switch solver {
	case "cvc5":
		argv = []string{"cvc5", fmt.Sprintf("--tlimit=%d", secs*1000), "--produce-models", file}
	case "z3":
		argv = []string{"z3", fmt.Sprintf("-T:%d", secs), file}
	default:
		argv = []string{"z3-new", fmt.Sprintf("-T:%d", secs), file}
	}
	ctx, cancel := context.WithTimeout(context.Background(), timeout+5*time.Second)
	defer cancel()
	cmd := exec.CommandContext(ctx, argv[0], argv[1:]...)
	var buf bytes.Buffer
	cmd.Stdout = &buf
	cmd.Stderr = &buf
	cmd.Run()
	out := buf.String()
	if !strings.HasPrefix(strings.TrimSpace(out), "sat") {
		return out, fmt.Errorf("solver did not answer sat on rerun: %s", firstLineOf(out))
	}
	return out, nil
}

// parseGetValue extracts the values from "sat\n((t1 v1) (t2 v2) ...)".
func parseGetValue(out string) ([]string, error) {
	i := strings.Index(out, "((")
	if i < 0 {
		if strings.Contains(out, "()") {
			return nil, nil
		}
		return nil, fmt.Errorf("no get-value response")
	}
	s := out[i:]
	// find matching paren of the outer list
	depth := 0
	end := -1
	for k, c := range s {
		if c == '(' {
			depth++
		} else if c == ')' {
			depth--
			if depth == 0 {
				end = k
				break
			}
		}
	}
	if end < 0 {
		return nil, fmt.Errorf("unbalanced get-value response")
	}
	inner := s[1:end]
	var vals []string
	for _, pair := range topLevel(inner) {
		pair = strings.TrimSpace(pair)
		if !strings.HasPrefix(pair, "(") {
			continue
		}
		parts := topLevel(pair[1 : len(pair)-1])
		if len(parts) != 2 {
			return nil, fmt.Errorf("unexpected pair %q", truncate(pair, 200))
		}
		vals = append(vals, strings.TrimSpace(parts[1]))
	}
	return vals, nil
}

// topLevel splits an s-expression body into its top-level items.
func topLevel(s string) []string {
	var out []string
	depth := 0
	start := -1
	for i, c := range s {
		switch {
		case c == '(':
			if depth == 0 && start < 0 {
				start = i
			}
			depth++
		case c == ')':
			depth--
			if depth == 0 && start >= 0 {
				out = append(out, s[start:i+1])
				start = -1
			}
		case c == ' ' || c == '\n' || c == '\t' || c == '\r':
			if depth == 0 && start >= 0 {
				out = append(out, s[start:i])
				start = -1
			}
		default:
			if start < 0 {
				start = i
			}
		}
	}
	if start >= 0 {
		out = append(out, s[start:])
	}
	return out
}
