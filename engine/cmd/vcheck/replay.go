package main

import "verifengine/vc"

// replayModel tries to re-run a solver model against the real code.
// (filled in by replay templates; returns false when no template applies)
func replayModel(p *vc.Program, prop string, o *oblOut, rep map[string]interface{}) (bool, interface{}) {
	return false, nil
}
