#!/bin/sh
# Builds the VC generator (offline, from the module cache only).
set -e
cd "$(dirname "$0")/engine"
export GOFLAGS=-mod=mod GOPROXY=off GOSUMDB=off GOTOOLCHAIN=local
mkdir -p ../bin
go build -o ../bin/vcheck ./cmd/vcheck
