#!/usr/bin/env python3
"""Runs the registered quick check of the broken property against every seeded change
(/verif/seeded/<id>/patch.diff applied to /repo, reverted afterwards) and records the
outcome in meta.json.  usage: seedmeta.py [name ...]"""
import json, os, subprocess, sys, re
VERIF = os.path.dirname(os.path.dirname(os.path.abspath(__file__)))
REPO = os.environ.get('VERIF_REPO', '/repo')
os.environ['VERIF_REPO'] = REPO
os.environ['VERIF_DIR'] = VERIF
root = VERIF + '/seeded'
NOTES = json.load(open(VERIF + '/tools/seed_notes.json'))
names = sys.argv[1:] or sorted(os.listdir(root))
for n in names:
    d = os.path.join(root, n)
    if not os.path.exists(os.path.join(d, 'patch.diff')):
        continue
    prop = n.split('-')[0]
    mp = os.path.join(d, 'meta.json')
    meta = json.load(open(mp)) if os.path.exists(mp) else {}
    if subprocess.run(['git', '-C', REPO, 'status', '--porcelain', '--untracked-files=no'], capture_output=True, text=True).stdout.strip():
        print('refusing: /repo dirty'); sys.exit(2)
    if subprocess.run(['git', '-C', REPO, 'apply', os.path.join(d, 'patch.diff')]).returncode != 0:
        meta['check_outcome'] = 'patch does not apply to the current /repo'
    else:
        try:
            r = subprocess.run([VERIF + '/bin/vcheck', 'check', '-prop', prop, '-no-evidence'], capture_output=True, text=True, cwd=VERIF)
        finally:
            subprocess.run(['git', '-C', REPO, 'checkout', '--', '.'])
        failed = [re.sub(r' clause=.*', '', l)[len('FAILED '):] for l in r.stdout.splitlines() if l.startswith('FAILED')]
        meta['check_outcome'] = 'caught' if r.returncode == 1 else ('missed' if r.returncode == 0 else 'engine-error')
        meta['failed_obligations'] = failed[:12]
        meta['violation_lines'] = [l for l in r.stdout.splitlines() if l.startswith('VIOLATION')][:4]
    readme = open(os.path.join(d, 'README.md')).read() if os.path.exists(os.path.join(d, 'README.md')) else ''
    meta.setdefault('property', prop)
    meta.setdefault('source', 'independent sub-agent given only the property text and a scratch worktree of /repo (no access to /verif)')
    meta['files_changed'] = sorted(set(re.findall(r'^\+\+\+ b/(\S+)', open(os.path.join(d, 'patch.diff')).read(), re.M)))
    note = NOTES.get(n, {})
    if note.get('what'):
        meta['change'] = note['what']
    if note.get('needs'):
        meta['needs_to_manifest'] = note['needs']
    meta.setdefault('needs_to_manifest', '')
    meta['confirmed_by'] = 'tools/confirm_seed.sh in a scratch worktree: ' + open(os.path.join(d, 'confirm.log')).read().replace('\n', '; ') if os.path.exists(os.path.join(d, 'confirm.log')) else ''
    meta['ran'] = 'git -C /repo apply patch.diff; /verif/check %s --tier quick; git -C /repo checkout -- .' % prop
    json.dump(meta, open(mp, 'w'), indent=1)
    print(n, meta['check_outcome'], (meta.get('failed_obligations') or [''])[0][:150])
