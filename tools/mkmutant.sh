#!/bin/sh
# usage: mkmutant.sh <name> <prop> <file> <sed-expr>   -- creates selftest/mutants/<prop>-<name>.patch from a sed edit of /repo/<file>
set -e
name="$1"; prop="$2"; file="$3"; expr="$4"
cd /repo
cp "$file" "/tmp/mut.$$"
sed -i "$expr" "$file"
if git diff --quiet -- "$file"; then echo "sed expression changed nothing: $name"; exit 1; fi
git diff -- "$file" > "/verif/selftest/mutants/$prop-$name.patch"
git checkout -- "$file"
rm -f "/tmp/mut.$$"
echo "created $prop-$name.patch"
