#!/usr/bin/env python3
# Regenerates the seeds table of DESIGN.md (section S5) from seeded/*/meta.json.
import json, re, os
os.chdir(os.path.dirname(os.path.abspath(__file__)) + "/..")
def key(n):
    m = re.match(r'C(\d+)-(\d+)', n); return (int(m.group(1)), int(m.group(2)))
rows, missed = [], []
for d in sorted(os.listdir('seeded'), key=key):
    m = json.load(open(f'seeded/{d}/meta.json'))
    ch = m.get('change', '').replace('|', '\\|')
    if m['check_outcome'] == 'caught':
        mm = re.search(r'function=(\S+) obligation=(\S+)', m['failed_obligations'][0])
        out = f"**caught** `{mm.group(1)} / {mm.group(2)}`" if mm else "**caught**"
    else:
        out = 'missed'; missed.append(d)
    rows.append(f"| {d} | {ch} | {out} |")
s = open('DESIGN.md').read()
a = s.index("| Seed | Change | Registered check |")
b = s.index("\n\nMissed seeds, and why")
s = s[:a] + "| Seed | Change | Registered check |\n|------|--------|------------------|\n" + "\n".join(rows) + s[b:]
s = re.sub(r'\(\d+ changes, \d+ caught\)', f'({len(rows)} changes, {len(rows)-len(missed)} caught)', s)
open('DESIGN.md', 'w').write(s)
print(len(rows), 'seeds;', len(missed), 'missed:', ' '.join(missed))
