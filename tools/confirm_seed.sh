#!/bin/bash
# usage: confirm_seed.sh <prop> <k> <seedname>
# Confirms an agent-produced seeded change in its scratch worktree /tmp/seed/<prop>:
#  demo passes without the change, change compiles, demo fails with it, existing tests pass with it.
# On success writes /verif/seeded/<seedname>/{patch.diff,demo_test.go,README.md,confirm.log}
export GOFLAGS=-mod=mod GOPROXY=off GOSUMDB=off GOTOOLCHAIN=local
P=$1; K=$2; NAME=$3
WT=/tmp/seed/$P
S=/tmp/seed/$P.SEED
[ -d $WT/SEED ] && { rm -rf $S; mv $WT/SEED $S; }
cd $WT || exit 2
git checkout -q -- . 
LOG=$S/confirm$K.log; : > $LOG
demo=$S/demo${K}_test.go
pkgdir=$(head -3 $demo | grep -o '\(model2d\|model3d\|toolbox3d\|render3d\|fileformats\|numerical\)[a-z0-9_/]*' | head -1)
pkgdir=${pkgdir%/}
[ -z "$pkgdir" ] && pkgdir=$(grep -m1 '^package ' $demo | awk '{print $2}')
echo "pkgdir=$pkgdir" >> $LOG
cp $demo $WT/$pkgdir/zz_seed_test.go
tests=$(grep -o '^func Test[A-Za-z0-9_]*' $demo | sed 's/func //' | paste -sd'|')
echo "tests=$tests" >> $LOG
if go test -vet=off -count=1 -run "^($tests)\$" ./$pkgdir >> $LOG 2>&1; then echo "STEP demo-without-change: pass" >> $LOG; else echo "STEP demo-without-change: FAIL (bad)" >> $LOG; rm -f $WT/$pkgdir/zz_seed_test.go; echo "RESULT $NAME rejected"; exit 1; fi
if ! git apply $S/change$K.diff >> $LOG 2>&1; then echo "STEP apply: FAIL" >> $LOG; rm -f $WT/$pkgdir/zz_seed_test.go; echo "RESULT $NAME rejected (apply)"; exit 1; fi
if ! go build ./... >> $LOG 2>&1; then echo "STEP build: FAIL" >> $LOG; git checkout -q -- .; rm -f $WT/$pkgdir/zz_seed_test.go; echo "RESULT $NAME rejected (build)"; exit 1; fi
if go test -vet=off -count=1 -run "^($tests)\$" ./$pkgdir >> $LOG 2>&1; then echo "STEP demo-with-change: pass (bad)" >> $LOG; git checkout -q -- .; rm -f $WT/$pkgdir/zz_seed_test.go; echo "RESULT $NAME rejected (demo passes with change)"; exit 1; else echo "STEP demo-with-change: fail (as required)" >> $LOG; fi
rm -f $WT/$pkgdir/zz_seed_test.go
if go test -vet=off -count=1 ./model2d/... ./model3d/... ./toolbox3d/... ./render3d/... ./fileformats/... ./numerical/... > $LOG.suite 2>&1; then echo "STEP existing-tests-with-change: pass" >> $LOG; else
  cat $LOG.suite >> $LOG
  # a failing test only counts if it is in the pinned stable_pass list (flaky random tests are not)
  bad=0
  for t in $(grep -o '^--- FAIL: [A-Za-z0-9_/]*' $LOG.suite | awk '{print $3}'); do
    if grep -q "::$t\"" /root/.vp/BASELINE.json; then
      # pinned test failed: randomised tests (unseeded math/rand) fail now and then; re-run it 5 times
      okc=0; for r in 1 2 3 4 5; do if go test -vet=off -count=1 -run "^$t\$" ./model2d/... ./model3d/... ./toolbox3d/... ./render3d/... ./fileformats/... ./numerical/... > /dev/null 2>&1; then okc=$((okc+1)); fi; done
      if [ $okc -ge 4 ]; then echo "unstable: pinned randomised test $t failed once, passed $okc/5 re-runs with the change: treated as flake" >> $LOG; else bad=1; echo "stable test failed: $t (passed only $okc/5 re-runs)" >> $LOG; fi
    else echo "unstable (not in stable_pass) test failed, ignored: $t" >> $LOG; fi
  done
  if [ $bad = 1 ] || ! grep -q '^--- FAIL' $LOG.suite; then echo "STEP existing-tests-with-change: FAIL (bad)" >> $LOG; git checkout -q -- .; echo "RESULT $NAME rejected (existing tests fail)"; exit 1; fi
  echo "STEP existing-tests-with-change: pass (only tests outside the pinned stable_pass list failed)" >> $LOG
fi
git checkout -q -- .
D=/verif/seeded/$NAME; mkdir -p $D
cp $S/change$K.diff $D/patch.diff; cp $demo $D/demo_test.go; cp $S/README$K.md $D/README.md; grep '^STEP\|^pkgdir\|^tests\|^unstable' $LOG > $D/confirm.log
echo "RESULT $NAME confirmed"
