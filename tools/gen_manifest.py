#!/usr/bin/env python3
"""Regenerates /verif/MANIFEST.json from tools/claims.json (per-property texts)."""
import json, os, subprocess
here = os.path.dirname(os.path.abspath(__file__))
root = os.path.dirname(here)
claims = json.load(open(os.path.join(here, "claims.json")))
props = [json.loads(l)["id"] for l in open(os.path.join(root, "properties.jsonl"))]
hooks = subprocess.run(["git", "-C", "/repo", "log", "--format=%H %s"], capture_output=True, text=True).stdout.splitlines()
hook_commits = [l.split()[0] for l in hooks if l.split(" ", 1)[1].startswith("verif hooks:")]
checks = []
na = []
for p in props:
    c = claims.get(p, {})
    if c.get("claimed"):
        checks.append({
            "property_id": p,
            "quick_cmd": f"./check {p} --tier quick",
            "thorough_cmd": f"./check {p} --tier thorough",
            "evidence_file": f"/verif/evidence/{p}.json",
            "replay_cmd_template": f"./check {p} --replay {{path}}",
            "engine": "verifengine",
            "level_claimed": {"category": c.get("category", "proof"), "text": c["text"], "design_ref": c.get("design_ref", "DESIGN.md section 5 (" + p + ")")},
            "level_note": c["note"],
            "technique": c.get("technique", "contract-based deductive verification: VCs generated from go/ssa of the real code, discharged by z3/cvc5"),
        })
    else:
        na.append({"property_id": p, "reason": c.get("reason", "not yet built (engine under construction); see DESIGN.md section 5 for the plan")})
m = {
    "version": 1,
    "setup_cmd": "cd /verif && ./setup.sh",
    "hooks": {
        "guard": "verif",
        "enable": "the engine loads /repo with build tag verif (go/packages BuildFlags -tags=verif); contract files are comment-only verif_contracts*.go",
        "baseline_off_cmd": "cd /repo && go test -vet=off -count=1 -timeout 25m ./...",
        "source_commits": hook_commits,
        "add_only": True,
    },
    "engines": [{"name": "verifengine", "path": "/verif/engine", "serves_properties": [c["property_id"] for c in checks],
                 "kind_free_text": "own VC generator: go/packages+go/ssa (x/tools v0.29.0) -> passive-form verification conditions -> SMT-LIB2, portfolio z3 4.8.12 | z3 5.1.0 | cvc5 1.0.3; contracts are //@ comments in /repo/<pkg>/verif_contracts*.go (build tag verif)"}],
    "checks": checks,
    "notes": claims.get("_notes", ""),
    "not_applicable": na,
}
json.dump(m, open(os.path.join(root, "MANIFEST.json"), "w"), indent=1)
print("checks:", [c["property_id"] for c in checks], "not_applicable:", len(na))
