#!/bin/bash
# usage: runseed.sh <seedname> [prop]   -- applies /verif/seeded/<name>/patch.diff to /repo, runs the property's quick check, reverts
cd /verif
name=$1; prop=${2:-${name%%-*}}
if [ -n "$(git -C /repo status --porcelain --untracked-files=no)" ]; then echo "refusing: /repo has uncommitted changes"; exit 2; fi
git -C /repo apply /verif/seeded/$name/patch.diff || { echo "patch does not apply"; exit 2; }
out=$(bin/vcheck check -prop $prop -no-evidence 2>&1); rc=$?
git -C /repo checkout -- .
echo "$out" | grep '^FAILED\|^UNDECIDED\|^SUMMARY\|^ENGINE' | cut -c1-260 | head -8
if [ $rc -eq 1 ]; then echo "SEED $name: CAUGHT by $prop"; else echo "SEED $name: MISSED by $prop (rc=$rc)"; fi
