#!/bin/sh
# Must-fail corpus: applies each mutant patch to the repository working tree, runs the
# property's quick check, expects exit 1 (VIOLATION), and reverts. usage: selftest.sh [prefix]
# The repository is $VERIF_REPO (default /repo); run on a snapshot (vp run --with-repo) to keep /repo free.
DIR="$(cd "$(dirname "$0")/.." && pwd)"
cd "$DIR"
REPO="${VERIF_REPO:-/repo}"
export VERIF_REPO="$REPO" VERIF_DIR="$DIR"
export GOFLAGS=-mod=mod GOPROXY=off GOSUMDB=off GOTOOLCHAIN=local
[ -x bin/vcheck ] || ./setup.sh
if [ -n "$(git -C "$REPO" status --porcelain --untracked-files=no)" ]; then echo "refusing: $REPO has uncommitted changes (commit them first)"; exit 2; fi
fail=0; total=0; killed=0
for p in selftest/mutants/${1:-C}*.patch; do
  [ -f "$p" ] || continue
  prop=$(basename "$p" | cut -d- -f1)
  total=$((total+1))
  if ! git -C "$REPO" apply "$DIR/$p" 2>/dev/null; then echo "SKIP (does not apply) $p"; continue; fi
  if ! (cd "$REPO" && go build ./... >/dev/null 2>&1); then
     echo "SKIP (does not compile) $p"; git -C "$REPO" apply -R "$DIR/$p" ; continue; fi
  out=$(bin/vcheck check -prop "$prop" -no-evidence 2>/tmp/selftest.$$.err); rc=$?; [ $rc -eq 2 ] && tail -3 /tmp/selftest.$$.err
  rm -f /tmp/selftest.$$.err
  git -C "$REPO" apply -R "$DIR/$p"
  if [ $rc -eq 1 ]; then killed=$((killed+1)); echo "KILLED  $p  ($(echo "$out" | grep -c '^VIOLATION') violations: $(echo "$out" | grep '^FAILED' | head -1 | sed 's/.*function=//' | cut -c1-110))";
  else fail=1; echo "MISSED  $p (rc=$rc)"; fi
done
echo "selftest: $killed/$total killed"
exit $fail
