#!/bin/sh
# Must-fail corpus: applies each mutant patch to /repo's working tree, runs the
# property's quick check, expects exit 1 (VIOLATION), and reverts. usage: selftest.sh [prop]
cd /verif
if [ -n "$(git -C /repo status --porcelain --untracked-files=no)" ]; then echo "refusing: /repo has uncommitted changes (commit them first)"; exit 2; fi
fail=0; total=0; killed=0
for p in selftest/mutants/${1:-C}*.patch; do
  [ -f "$p" ] || continue
  prop=$(basename "$p" | cut -d- -f1)
  total=$((total+1))
  if ! git -C /repo apply "$PWD/$p" 2>/dev/null; then echo "SKIP (does not apply) $p"; continue; fi
  if ! (cd /repo && GOFLAGS=-mod=mod GOPROXY=off GOSUMDB=off GOTOOLCHAIN=local go build ./... >/dev/null 2>&1); then
     echo "SKIP (does not compile) $p"; git -C /repo apply -R "$PWD/$p" ; continue; fi
  out=$(bin/vcheck check -prop "$prop" -no-evidence 2>/tmp/selftest.err); rc=$?; [ $rc -eq 2 ] && tail -3 /tmp/selftest.err
  git -C /repo apply -R "$PWD/$p"
  if [ $rc -eq 1 ]; then killed=$((killed+1)); echo "KILLED  $p  ($(echo "$out" | grep -c '^VIOLATION') violations: $(echo "$out" | grep '^FAILED' | head -1 | sed 's/.*function=//' | cut -c1-90))";
  else fail=1; echo "MISSED  $p (rc=$rc)"; fi
done
echo "selftest: $killed/$total killed"
exit $fail
