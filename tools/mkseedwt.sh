#!/bin/sh
# usage: mkseedwt.sh <name>  -- creates a scratch worktree of /repo HEAD at /tmp/seed/<name> with the verif_* contract files removed
set -e
d=/tmp/seed/$1
mkdir -p /tmp/seed
git -C /repo worktree add --detach "$d" HEAD >/dev/null 2>&1
cd "$d"
git rm -q */verif_*.go
git -c user.name=scratch -c user.email=s@x commit -q -m "scratch base without contract files"
echo "$d"
