#!/bin/sh
# runs the quick engine check of every claimed property on /repo's working tree (no evidence written); prints one SUMMARY line each
cd "$(dirname "$0")/.."
for p in $(python3 -c "import json;print(' '.join(c['property_id'] for c in json.load(open('MANIFEST.json'))['checks']))"); do
  bin/vcheck check -prop $p -no-evidence 2>&1 | grep "^SUMMARY\|^FAILED\|ENGINE" | cut -c1-260
done
